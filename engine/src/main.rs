// srfacts: rustc_private fact extractor for the /verif static rules.
//
// Injected with RUSTC_WORKSPACE_WRAPPER under `cargo +nightly check`; for every crate whose name
// is listed in SRFACTS_CRATES (default "stateright") it dumps, after analysis, one JSON file into
// SRFACTS_OUT holding MIR bodies (resolved callees, structured places/rvalues, switch tables),
// ADT definitions, trait impls and closure facts. Nothing is executed; no verdicts are made here.
#![feature(rustc_private)]
#![allow(clippy::all)]

extern crate rustc_abi;
extern crate rustc_driver;
extern crate rustc_hir;
extern crate rustc_interface;
extern crate rustc_middle;
extern crate rustc_span;

mod json;
use json::J;

use rustc_driver::Compilation;
use rustc_hir::def::DefKind;
use rustc_hir::def_id::{DefId, LOCAL_CRATE};
use rustc_interface::interface::Compiler;
use rustc_middle::mir::{
    self, AggregateKind, BasicBlock, Body, BorrowKind, Operand, Place, ProjectionElem, Rvalue,
    StatementKind, TerminatorKind, UnwindAction,
};
use rustc_middle::ty::print::with_no_trimmed_paths;
use rustc_middle::ty::{self, Ty, TyCtxt};
use rustc_span::Span;

struct Cb;

impl rustc_driver::Callbacks for Cb {
    fn after_analysis<'tcx>(&mut self, _c: &Compiler, tcx: TyCtxt<'tcx>) -> Compilation {
        let name = tcx.crate_name(LOCAL_CRATE).to_string();
        let wanted = std::env::var("SRFACTS_CRATES").unwrap_or_else(|_| "stateright".to_string());
        if wanted.split(',').any(|w| w == name) {
            dump(tcx, &name);
        }
        Compilation::Continue
    }
}

fn main() {
    let mut args: Vec<String> = std::env::args().collect();
    // RUSTC_WORKSPACE_WRAPPER passes the real rustc path as argv[1].
    if args.len() > 1 && (args[1].ends_with("rustc") || args[1].contains("/rustc")) {
        args.remove(1);
    }
    let mut cb = Cb;
    rustc_driver::run_compiler(&args, &mut cb);
}

fn s(x: impl Into<String>) -> J {
    J::Str(x.into())
}
fn n(x: usize) -> J {
    J::Num(x as i128)
}
fn obj(v: Vec<(&str, J)>) -> J {
    J::Obj(v.into_iter().map(|(k, v)| (k.to_string(), v)).collect())
}

fn span_str(tcx: TyCtxt<'_>, sp: Span) -> String {
    let sm = tcx.sess.source_map();
    let lo = sm.lookup_char_pos(sp.lo());
    let file = match &lo.file.name {
        rustc_span::FileName::Real(r) => match r.local_path() {
            Some(p) => p.to_string_lossy().to_string(),
            None => format!("{:?}", r),
        },
        other => format!("{:?}", other),
    };
    format!("{}:{}", file, lo.line)
}

fn path_of(tcx: TyCtxt<'_>, did: DefId) -> String {
    with_no_trimmed_paths!(tcx.def_path_str(did))
}

fn ty_str<'tcx>(t: Ty<'tcx>) -> String {
    with_no_trimmed_paths!(format!("{}", t))
}

fn ty_tree<'tcx>(tcx: TyCtxt<'tcx>, t: Ty<'tcx>, depth: usize) -> J {
    if depth > 10 {
        return obj(vec![("k", s("deep")), ("s", s(ty_str(t)))]);
    }
    match t.kind() {
        ty::Adt(def, args) => obj(vec![
            ("k", s("adt")),
            ("path", s(path_of(tcx, def.did()))),
            (
                "args",
                J::Arr(args.types().map(|a| ty_tree(tcx, a, depth + 1)).collect()),
            ),
        ]),
        ty::Ref(_, inner, m) => obj(vec![
            ("k", s("ref")),
            ("mut", J::Bool(m.is_mut())),
            ("t", ty_tree(tcx, *inner, depth + 1)),
        ]),
        ty::RawPtr(inner, m) => obj(vec![
            ("k", s("ptr")),
            ("mut", J::Bool(m.is_mut())),
            ("t", ty_tree(tcx, *inner, depth + 1)),
        ]),
        ty::Tuple(ts) => obj(vec![
            ("k", s("tuple")),
            (
                "ts",
                J::Arr(ts.iter().map(|a| ty_tree(tcx, a, depth + 1)).collect()),
            ),
        ]),
        ty::Param(p) => obj(vec![("k", s("param")), ("name", s(p.name.to_string()))]),
        ty::Slice(inner) => obj(vec![("k", s("slice")), ("t", ty_tree(tcx, *inner, depth + 1))]),
        ty::Array(inner, _) => obj(vec![("k", s("array")), ("t", ty_tree(tcx, *inner, depth + 1))]),
        ty::FnPtr(..) => obj(vec![("k", s("fnptr")), ("s", s(ty_str(t)))]),
        ty::FnDef(did, _) => obj(vec![("k", s("fndef")), ("path", s(path_of(tcx, *did)))]),
        ty::Closure(did, _) => obj(vec![("k", s("closure")), ("path", s(path_of(tcx, *did)))]),
        ty::Alias(..) => obj(vec![("k", s("alias")), ("s", s(ty_str(t)))]),
        ty::Dynamic(..) => obj(vec![("k", s("dyn")), ("s", s(ty_str(t)))]),
        ty::Bool | ty::Char | ty::Int(_) | ty::Uint(_) | ty::Float(_) | ty::Str | ty::Never => {
            obj(vec![("k", s("prim")), ("s", s(ty_str(t)))])
        }
        _ => obj(vec![("k", s("other")), ("s", s(ty_str(t)))]),
    }
}

struct Cx<'tcx> {
    tcx: TyCtxt<'tcx>,
    body_did: DefId,
    typing_env: ty::TypingEnv<'tcx>,
}

impl<'tcx> Cx<'tcx> {
    fn place(&self, body: &Body<'tcx>, p: &Place<'tcx>) -> J {
        let tcx = self.tcx;
        let mut projs = Vec::new();
        let mut pty = mir::PlaceTy::from_ty(body.local_decls[p.local].ty);
        for elem in p.projection.iter() {
            let j = match elem {
                ProjectionElem::Deref => s("deref"),
                ProjectionElem::Field(f, fty) => {
                    let mut name = String::new();
                    let mut base = String::new();
                    match pty.ty.kind() {
                        ty::Adt(def, _) => {
                            base = path_of(tcx, def.did());
                            let v = pty.variant_index.unwrap_or(rustc_abi::FIRST_VARIANT);
                            if def.is_enum() || def.is_struct() || def.is_union() {
                                if let Some(fd) = def.variant(v).fields.get(f) {
                                    name = fd.name.to_string();
                                }
                            }
                        }
                        _ => {}
                    }
                    obj(vec![
                        ("f", n(f.as_usize())),
                        ("name", s(name)),
                        ("base", s(base)),
                        ("ty", s(ty_str(fty))),
                    ])
                }
                ProjectionElem::Index(l) => obj(vec![("index", n(l.as_usize()))]),
                ProjectionElem::ConstantIndex { offset, from_end, .. } => obj(vec![
                    ("cindex", J::Num(offset as i128)),
                    ("from_end", J::Bool(from_end)),
                ]),
                ProjectionElem::Subslice { .. } => s("subslice"),
                ProjectionElem::Downcast(_, v) => {
                    let mut name = format!("{}", v.as_usize());
                    if let ty::Adt(def, _) = pty.ty.kind() {
                        if def.is_enum() {
                            name = def.variant(v).name.to_string();
                        }
                    }
                    obj(vec![("downcast", s(name)), ("vidx", n(v.as_usize()))])
                }
                _ => s("otherproj"),
            };
            projs.push(j);
            pty = pty.projection_ty(tcx, elem);
        }
        obj(vec![("l", n(p.local.as_usize())), ("p", J::Arr(projs))])
    }

    fn constant(&self, c: &mir::ConstOperand<'tcx>) -> J {
        let tcx = self.tcx;
        let cty = c.const_.ty();
        let mut v = vec![("k", s("const")), ("ty", s(ty_str(cty)))];
        match cty.kind() {
            ty::FnDef(did, args) => {
                v.push(("fn", s(path_of(tcx, *did))));
                v.push((
                    "fn_full",
                    s(with_no_trimmed_paths!(tcx.def_path_str_with_args(*did, args))),
                ));
                if let Ok(Some(inst)) = ty::Instance::try_resolve(tcx, self.typing_env, *did, args) {
                    v.push(("fn_resolved", s(path_of(tcx, inst.def_id()))));
                }
            }
            _ => {
                if let mir::Const::Unevaluated(uv, _) = c.const_ {
                    if let Some(p) = uv.promoted {
                        v.push(("promoted", n(p.as_usize())));
                        return obj(v);
                    }
                }
                let scalar_ok = matches!(
                    cty.kind(),
                    ty::Bool | ty::Char | ty::Int(_) | ty::Uint(_)
                );
                if scalar_ok {
                    if let Some(si) = c.const_.try_eval_scalar_int(tcx, self.typing_env) {
                        let bits = si.to_bits(si.size());
                        v.push(("val", J::Num(bits as i128)));
                    }
                }
                v.push(("dbg", s(with_no_trimmed_paths!(format!("{}", c.const_)))));
            }
        }
        obj(v)
    }

    fn operand(&self, body: &Body<'tcx>, o: &Operand<'tcx>) -> J {
        match o {
            Operand::Copy(p) => obj(vec![("k", s("copy")), ("place", self.place(body, p))]),
            Operand::Move(p) => obj(vec![("k", s("move")), ("place", self.place(body, p))]),
            Operand::Constant(c) => self.constant(c),
            #[allow(unreachable_patterns)]
            other => obj(vec![("k", s("otherop")), ("dbg", s(format!("{:?}", other)))]),
        }
    }

    fn rvalue(&self, body: &Body<'tcx>, rv: &Rvalue<'tcx>) -> J {
        let tcx = self.tcx;
        match rv {
            Rvalue::Use(o, ..) => obj(vec![("k", s("use")), ("op", self.operand(body, o))]),
            Rvalue::Ref(_, bk, p) => obj(vec![
                ("k", s("ref")),
                ("mut", J::Bool(matches!(bk, BorrowKind::Mut { .. }))),
                ("place", self.place(body, p)),
            ]),
            Rvalue::RawPtr(_, p) => obj(vec![("k", s("rawptr")), ("place", self.place(body, p))]),
            Rvalue::CopyForDeref(p) => obj(vec![
                ("k", s("use")),
                ("op", obj(vec![("k", s("copy")), ("place", self.place(body, p))])),
            ]),
            Rvalue::Cast(kind, o, t) => obj(vec![
                ("k", s("cast")),
                ("kind", s(format!("{:?}", kind))),
                ("op", self.operand(body, o)),
                ("ty", s(ty_str(*t))),
            ]),
            Rvalue::BinaryOp(op, ab) => obj(vec![
                ("k", s("bin")),
                ("op", s(format!("{:?}", op))),
                ("a", self.operand(body, &ab.0)),
                ("b", self.operand(body, &ab.1)),
            ]),
            Rvalue::UnaryOp(op, o) => obj(vec![
                ("k", s("un")),
                ("op", s(format!("{:?}", op))),
                ("a", self.operand(body, o)),
            ]),
            Rvalue::Discriminant(p) => {
                let pty = p.ty(&body.local_decls, tcx).ty;
                let mut v = vec![("k", s("discr")), ("place", self.place(body, p))];
                if let ty::Adt(def, _) = pty.kind() {
                    v.push(("adt", s(path_of(tcx, def.did()))));
                    if def.is_enum() {
                        let mut vs = Vec::new();
                        for (vi, d) in def.discriminants(tcx) {
                            vs.push(J::Arr(vec![
                                J::Num(d.val as i128),
                                s(def.variant(vi).name.to_string()),
                            ]));
                        }
                        v.push(("variants", J::Arr(vs)));
                    }
                }
                obj(v)
            }
            Rvalue::Aggregate(kind, ops) => {
                let mut v = vec![("k", s("agg"))];
                match &**kind {
                    AggregateKind::Adt(did, vidx, _, _, _) => {
                        let def = tcx.adt_def(*did);
                        v.push(("agg", s("adt")));
                        v.push(("adt", s(path_of(tcx, *did))));
                        v.push(("variant", s(def.variant(*vidx).name.to_string())));
                        v.push((
                            "fields",
                            J::Arr(
                                def.variant(*vidx)
                                    .fields
                                    .iter()
                                    .map(|f| s(f.name.to_string()))
                                    .collect(),
                            ),
                        ));
                    }
                    AggregateKind::Closure(did, _) => {
                        v.push(("agg", s("closure")));
                        v.push(("closure", s(path_of(tcx, *did))));
                    }
                    AggregateKind::Tuple => v.push(("agg", s("tuple"))),
                    AggregateKind::Array(_) => v.push(("agg", s("array"))),
                    other => v.push(("agg", s(format!("{:?}", other)))),
                }
                v.push((
                    "ops",
                    J::Arr(ops.iter().map(|o| self.operand(body, o)).collect()),
                ));
                obj(v)
            }
            Rvalue::Repeat(o, _) => obj(vec![("k", s("repeat")), ("op", self.operand(body, o))]),
            other => obj(vec![("k", s("otherrv")), ("dbg", s(format!("{:?}", other)))]),
        }
    }

    fn unwind(&self, u: &UnwindAction) -> J {
        match u {
            UnwindAction::Cleanup(bb) => n(bb.as_usize()),
            UnwindAction::Continue => s("continue"),
            UnwindAction::Unreachable => s("unreachable"),
            UnwindAction::Terminate(_) => s("terminate"),
        }
    }

    fn tgt(&self, t: &Option<BasicBlock>) -> J {
        match t {
            Some(bb) => n(bb.as_usize()),
            None => J::Null,
        }
    }

    fn body(&self, body: &Body<'tcx>) -> J {
        let tcx = self.tcx;
        let mut locals = Vec::new();
        for (_l, decl) in body.local_decls.iter_enumerated() {
            let mut peeled = decl.ty;
            while let ty::Ref(_, inner, _) = peeled.kind() {
                peeled = *inner;
            }
            let head = match peeled.kind() {
                ty::Adt(def, _) => path_of(tcx, def.did()),
                ty::Closure(did, _) => path_of(tcx, *did),
                _ => String::new(),
            };
            locals.push(obj(vec![
                ("ty", s(ty_str(decl.ty))),
                ("head", s(head)),
                ("tree", ty_tree(tcx, decl.ty, 0)),
            ]));
        }
        let mut dbg = Vec::new();
        for vdi in body.var_debug_info.iter() {
            if let mir::VarDebugInfoContents::Place(p) = &vdi.value {
                dbg.push(obj(vec![
                    ("name", s(vdi.name.to_string())),
                    ("place", self.place(body, p)),
                ]));
            }
        }
        let mut blocks = Vec::new();
        for (_bb, data) in body.basic_blocks.iter_enumerated() {
            let mut stmts = Vec::new();
            for st in data.statements.iter() {
                match &st.kind {
                    StatementKind::Assign(bx) => {
                        let (lhs, rv) = &**bx;
                        stmts.push(obj(vec![
                            ("k", s("assign")),
                            ("lhs", self.place(body, lhs)),
                            ("rv", self.rvalue(body, rv)),
                            ("span", s(span_str(tcx, st.source_info.span))),
                            ("exp", J::Bool(st.source_info.span.from_expansion())),
                        ]));
                    }
                    StatementKind::SetDiscriminant { place, variant_index } => {
                        let pty = place.ty(&body.local_decls, tcx).ty;
                        let mut name = format!("{}", variant_index.as_usize());
                        if let ty::Adt(def, _) = pty.kind() {
                            if def.is_enum() {
                                name = def.variant(*variant_index).name.to_string();
                            }
                        }
                        stmts.push(obj(vec![
                            ("k", s("setdiscr")),
                            ("lhs", self.place(body, place)),
                            ("variant", s(name)),
                        ]));
                    }
                    _ => {}
                }
            }
            let term = data.terminator();
            let sp = term.source_info.span;
            let mut t = match &term.kind {
                TerminatorKind::Goto { target } => {
                    vec![("k", s("goto")), ("target", n(target.as_usize()))]
                }
                TerminatorKind::SwitchInt { discr, targets } => {
                    let mut tv = Vec::new();
                    for (val, bb) in targets.iter() {
                        tv.push(J::Arr(vec![J::Num(val as i128), n(bb.as_usize())]));
                    }
                    vec![
                        ("k", s("switch")),
                        ("discr", self.operand(body, discr)),
                        ("targets", J::Arr(tv)),
                        ("otherwise", n(targets.otherwise().as_usize())),
                    ]
                }
                TerminatorKind::Return => vec![("k", s("return"))],
                TerminatorKind::Unreachable => vec![("k", s("unreachable"))],
                TerminatorKind::UnwindResume => vec![("k", s("resume"))],
                TerminatorKind::UnwindTerminate(_) => vec![("k", s("abort"))],
                TerminatorKind::Drop { place, target, unwind, .. } => vec![
                    ("k", s("drop")),
                    ("place", self.place(body, place)),
                    ("ty", s(ty_str(place.ty(&body.local_decls, tcx).ty))),
                    ("target", n(target.as_usize())),
                    ("unwind", self.unwind(unwind)),
                ],
                TerminatorKind::Assert { cond, expected, target, unwind, msg } => vec![
                    ("k", s("assert")),
                    ("cond", self.operand(body, cond)),
                    ("expected", J::Bool(*expected)),
                    ("msg", s(format!("{:?}", msg).chars().take(80).collect::<String>())),
                    ("target", n(target.as_usize())),
                    ("unwind", self.unwind(unwind)),
                ],
                TerminatorKind::Call { func, args, destination, target, unwind, .. } => {
                    let mut v = vec![("k", s("call"))];
                    if let Some((did, gargs)) = func.const_fn_def() {
                        v.push(("decl", s(path_of(tcx, did))));
                        v.push((
                            "full",
                            s(with_no_trimmed_paths!(tcx.def_path_str_with_args(did, gargs))),
                        ));
                        let mut resolved = did;
                        if let Ok(Some(inst)) =
                            ty::Instance::try_resolve(tcx, self.typing_env, did, gargs)
                        {
                            resolved = inst.def_id();
                        }
                        v.push(("callee", s(path_of(tcx, resolved))));
                        v.push(("local", J::Bool(resolved.is_local())));
                        v.push((
                            "targs",
                            J::Arr(gargs.types().map(|t| s(ty_str(t))).collect()),
                        ));
                        if let Some(tr) = tcx.trait_of_assoc(did) {
                            v.push(("trait", s(path_of(tcx, tr))));
                        }
                    } else {
                        v.push(("fnptr", self.operand(body, func)));
                        v.push(("callee", s("<indirect>")));
                    }
                    v.push((
                        "args",
                        J::Arr(args.iter().map(|a| self.operand(body, &a.node)).collect()),
                    ));
                    v.push(("dest", self.place(body, destination)));
                    v.push(("target", self.tgt(target)));
                    v.push(("unwind", self.unwind(unwind)));
                    v
                }
                other => vec![
                    ("k", s("otherterm")),
                    ("dbg", s(format!("{:?}", other).chars().take(120).collect::<String>())),
                ],
            };
            t.push(("span", s(span_str(tcx, sp))));
            t.push(("exp", J::Bool(sp.from_expansion())));
            blocks.push(obj(vec![
                ("cleanup", J::Bool(data.is_cleanup)),
                ("stmts", J::Arr(stmts)),
                ("term", obj(t)),
            ]));
        }
        obj(vec![
            ("arg_count", n(body.arg_count)),
            ("locals", J::Arr(locals)),
            ("debug", J::Arr(dbg)),
            ("blocks", J::Arr(blocks)),
        ])
    }
}

fn dump(tcx: TyCtxt<'_>, crate_name: &str) {
    let mut bodies = Vec::new();
    let mut nbodies = 0usize;
    for ldid in tcx.mir_keys(()).iter() {
        let did = ldid.to_def_id();
        let kind = tcx.def_kind(did);
        if !matches!(kind, DefKind::Fn | DefKind::AssocFn | DefKind::Closure) {
            continue;
        }
        let body = tcx.optimized_mir(did);
        let cx = Cx { tcx, body_did: did, typing_env: ty::TypingEnv::post_analysis(tcx, did) };
        let _ = cx.body_did;
        let mut b = match cx.body(body) {
            J::Obj(v) => v,
            _ => unreachable!(),
        };
        let mut proms = Vec::new();
        for pb in tcx.promoted_mir(did).iter() {
            proms.push(cx.body(pb));
        }
        b.push(("promoted".to_string(), J::Arr(proms)));
        b.push(("path".to_string(), s(path_of(tcx, did))));
        b.push(("kind".to_string(), s(format!("{:?}", kind))));
        b.push(("span".to_string(), s(span_str(tcx, tcx.def_span(did)))));
        let parent = tcx.parent(did);
        b.push(("parent".to_string(), s(path_of(tcx, parent))));
        let root = tcx.typeck_root_def_id(did);
        b.push(("root".to_string(), s(path_of(tcx, root))));
        if matches!(kind, DefKind::Fn | DefKind::AssocFn) {
            b.push(("vis".to_string(), s(format!("{:?}", tcx.visibility(did)))));
            b.push(("name".to_string(), s(tcx.item_name(did).to_string())));
        }
        if kind == DefKind::AssocFn {
            // impl block facts
            let p = parent;
            if let DefKind::Impl { of_trait } = tcx.def_kind(p) {
                let self_ty = tcx.type_of(p).instantiate_identity().skip_norm_wip();
                b.push(("impl_self".to_string(), s(ty_str(self_ty))));
                b.push(("impl_self_tree".to_string(), ty_tree(tcx, self_ty, 0)));
                if of_trait {
                    let tr = tcx.impl_trait_ref(p).instantiate_identity().skip_norm_wip();
                    b.push(("impl_trait".to_string(), s(path_of(tcx, tr.def_id))));
                    b.push((
                        "impl_trait_full".to_string(),
                        s(with_no_trimmed_paths!(format!("{}", tr))),
                    ));
                    b.push((
                        "derived".to_string(),
                        J::Bool(tcx.is_automatically_derived(p)),
                    ));
                }
            } else if tcx.def_kind(p) == DefKind::Trait {
                b.push(("trait_default_of".to_string(), s(path_of(tcx, p))));
            }
        }
        if kind == DefKind::Closure {
            let cty = tcx.type_of(did).instantiate_identity().skip_norm_wip();
            if let ty::Closure(_, a) = cty.kind() {
                let ups: Vec<J> = a
                    .as_closure()
                    .upvar_tys()
                    .iter()
                    .map(|t| obj(vec![("ty", s(ty_str(t))), ("tree", ty_tree(tcx, t, 0))]))
                    .collect();
                b.push(("upvars".to_string(), J::Arr(ups)));
            }
        }
        bodies.push(J::Obj(b));
        nbodies += 1;
    }

    // ADTs, impls, and other items
    let mut adts = Vec::new();
    let mut impls = Vec::new();
    let mut items = Vec::new();
    for ldid in tcx.hir_crate_items(()).definitions() {
        let did = ldid.to_def_id();
        let kind = tcx.def_kind(did);
        match kind {
            DefKind::Struct | DefKind::Enum | DefKind::Union => {
                let def = tcx.adt_def(did);
                let mut variants = Vec::new();
                for v in def.variants().iter() {
                    let mut fields = Vec::new();
                    for f in v.fields.iter() {
                        let fty = tcx.type_of(f.did).instantiate_identity().skip_norm_wip();
                        fields.push(obj(vec![
                            ("name", s(f.name.to_string())),
                            ("ty", s(ty_str(fty))),
                            ("tree", ty_tree(tcx, fty, 0)),
                            ("vis", s(format!("{:?}", f.vis))),
                        ]));
                    }
                    variants.push(obj(vec![
                        ("name", s(v.name.to_string())),
                        ("fields", J::Arr(fields)),
                    ]));
                }
                let generics: Vec<J> = tcx
                    .generics_of(did)
                    .own_params
                    .iter()
                    .map(|p| s(p.name.to_string()))
                    .collect();
                adts.push(obj(vec![
                    ("path", s(path_of(tcx, did))),
                    ("kind", s(format!("{:?}", kind))),
                    ("vis", s(format!("{:?}", tcx.visibility(did)))),
                    ("span", s(span_str(tcx, tcx.def_span(did)))),
                    ("generics", J::Arr(generics)),
                    ("variants", J::Arr(variants)),
                ]));
            }
            DefKind::Impl { of_trait } => {
                let self_ty = tcx.type_of(did).instantiate_identity().skip_norm_wip();
                let mut v = vec![
                    ("path", s(path_of(tcx, did))),
                    ("self", s(ty_str(self_ty))),
                    ("self_tree", ty_tree(tcx, self_ty, 0)),
                    ("span", s(span_str(tcx, tcx.def_span(did)))),
                ];
                let mut provided = Vec::new();
                for it in tcx.associated_items(did).in_definition_order() {
                    provided.push(obj(vec![
                        ("name", s(it.name().to_string())),
                        ("path", s(path_of(tcx, it.def_id))),
                        ("is_fn", J::Bool(it.is_fn())),
                    ]));
                }
                v.push(("provided", J::Arr(provided)));
                if of_trait {
                    let tr = tcx.impl_trait_ref(did).instantiate_identity().skip_norm_wip();
                    v.push(("trait", s(path_of(tcx, tr.def_id))));
                    v.push(("trait_full", s(with_no_trimmed_paths!(format!("{}", tr)))));
                    v.push(("derived", J::Bool(tcx.is_automatically_derived(did))));
                    let mut titems = Vec::new();
                    for it in tcx.associated_items(tr.def_id).in_definition_order() {
                        titems.push(obj(vec![
                            ("name", s(it.name().to_string())),
                            ("is_fn", J::Bool(it.is_fn())),
                            ("has_default", J::Bool(it.defaultness(tcx).has_value())),
                        ]));
                    }
                    v.push(("trait_items", J::Arr(titems)));
                }
                let preds: Vec<J> = tcx
                    .predicates_of(did)
                    .predicates
                    .iter()
                    .map(|(p, _)| s(with_no_trimmed_paths!(format!("{}", p))))
                    .collect();
                v.push(("where", J::Arr(preds)));
                impls.push(obj(v));
            }
            DefKind::Fn | DefKind::AssocFn | DefKind::Mod | DefKind::Trait | DefKind::Const { .. }
            | DefKind::Static { .. } | DefKind::TyAlias => {
                items.push(obj(vec![
                    ("path", s(path_of(tcx, did))),
                    ("kind", s(format!("{:?}", kind))),
                    ("vis", s(format!("{:?}", tcx.visibility(did)))),
                    ("span", s(span_str(tcx, tcx.def_span(did)))),
                ]));
            }
            _ => {}
        }
    }

    let out = obj(vec![
        ("crate", s(crate_name)),
        ("run_id", s(std::env::var("SRFACTS_RUN_ID").unwrap_or_default())),
        ("is_test", J::Bool(tcx.sess.opts.test)),
        ("nbodies", n(nbodies)),
        ("bodies", J::Arr(bodies)),
        ("adts", J::Arr(adts)),
        ("impls", J::Arr(impls)),
        ("items", J::Arr(items)),
    ]);
    let dir = std::env::var("SRFACTS_OUT").unwrap_or_else(|_| ".".to_string());
    let suffix = if tcx.sess.opts.test { "test" } else { "lib" };
    let file = format!("{}/{}-{}-{}.json", dir, crate_name, suffix, std::process::id());
    let mut text = String::new();
    out.write(&mut text);
    std::fs::write(&file, text).expect("srfacts: cannot write fact file");
    eprintln!("srfacts: wrote {} ({} bodies)", file, nbodies);
}
