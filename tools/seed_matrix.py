#!/usr/bin/env python3
"""Run every claimed check against every stored seeded change (applied to a scratch copy of /repo) and
record which checks detect it: updates seeded/*/meta.json (detected_by, rules) and seeded/RESULTS.md."""
import glob, json, os, re, shutil, subprocess, sys, tempfile
VERIF = os.path.dirname(os.path.dirname(os.path.abspath(__file__)))
def sh(c, **k): return subprocess.run(c, shell=True, stdout=subprocess.PIPE, stderr=subprocess.STDOUT, text=True, **k)
props = [c['property_id'] for c in json.load(open(os.path.join(VERIF, 'MANIFEST.json')))['checks']]
scratch = tempfile.mkdtemp(prefix='sr_seedm_'); evd = tempfile.mkdtemp(prefix='sr_seedm_ev_')
rows = []
only = sys.argv[1:]
try:
    for meta_p in sorted(glob.glob(os.path.join(VERIF, 'seeded', '*', 'meta.json'))):
        meta = json.load(open(meta_p))
        if only and meta['name'] not in only: 
            continue
        sh('rsync -a --delete --exclude target --exclude .git /repo/ %s/' % scratch)
        r = sh('patch -p1 --no-backup-if-mismatch -s < %s' % os.path.join(os.path.dirname(meta_p), 'patch.diff'), cwd=scratch)
        if r.returncode != 0:
            print(meta['name'], 'patch does not apply'); continue
        det, rules = [], {}
        env = dict(os.environ, VERIF_EVIDENCE_DIR=evd, VERIF_TIER='quick')
        r = sh('%s/check --all --repo %s' % (VERIF, scratch), env=env)
        cur = None
        for l in r.stdout.splitlines():
            m = re.match(r'^VIOLATION property=(C\d+)', l)
            if m: cur = m.group(1); 
            m2 = re.match(r'^\s+rule (\S+) at', l)
            if m2 and cur:
                rules.setdefault(cur, [])
                if m2.group(1) not in rules[cur]: rules[cur].append(m2.group(1))
        det = sorted(rules)
        meta['detected_by'] = det; meta['rules_fired'] = rules
        meta['checked_at_repo_head'] = sh('git -C /repo rev-parse --short HEAD').stdout.strip()
        json.dump(meta, open(meta_p, 'w'), indent=1)
        rows.append((meta['name'], meta['property'], det, rules))
        print(meta['name'], meta['property'], det, rules)
finally:
    shutil.rmtree(scratch, ignore_errors=True); shutil.rmtree(evd, ignore_errors=True)
if not only:
    with open(os.path.join(VERIF, 'seeded', 'RESULTS.md'), 'w') as f:
        f.write('| seeded change | breaks | detected by (property: rules) |\n|---|---|---|\n')
        for n, p, det, rules in rows:
            f.write('| %s | %s | %s |\n' % (n, p, '; '.join('%s: %s' % (k, ', '.join(v)) for k, v in sorted(rules.items())) or '**not detected**'))
