#!/usr/bin/env python3
"""Apply a seeded change to /repo, run every claimed check (quick), undo it.
   tools/seedtest.py <patch.diff> [props...]"""
import json, os, subprocess, sys
VERIF = os.path.dirname(os.path.dirname(os.path.abspath(__file__)))
patch = os.path.abspath(sys.argv[1])
props = sys.argv[2:] or [c['property_id'] for c in json.load(open(os.path.join(VERIF, 'MANIFEST.json')))['checks']]
def sh(c, **k): return subprocess.run(c, shell=True, stdout=subprocess.PIPE, stderr=subprocess.STDOUT, text=True, **k)
st = sh('git -C /repo status --porcelain --untracked-files=no').stdout.strip()
if st:
    print('refusing: /repo has local modifications'); sys.exit(2)
r = sh('git -C /repo apply --whitespace=nowarn %s' % patch)
if r.returncode != 0:
    print('patch does not apply:', r.stdout); sys.exit(2)
hits = []
try:
    env = dict(os.environ, VERIF_EVIDENCE_DIR='/tmp/seedtest_ev', VERIF_TIER='quick')
    os.makedirs('/tmp/seedtest_ev', exist_ok=True)
    for p in props:
        r = sh('%s/check %s' % (VERIF, p), env=env)
        rules = [l.strip() for l in r.stdout.splitlines() if l.strip().startswith('rule ')]
        print('%s: exit %d %s' % (p, r.returncode, ('| ' + ' | '.join(x[:230] for x in rules)) if rules else ''))
        if r.returncode == 1: hits.append(p)
        if r.returncode == 2: print(r.stdout[-1500:])
finally:
    sh('git -C /repo checkout -- .')
print('DETECTED by %s' % hits if hits else 'MISSED')
