#!/usr/bin/env python3
"""Regenerate /verif/MANIFEST.json from the rule modules that exist (claimed) and the
NOT_APPLICABLE table below (everything else)."""
import importlib
import json
import os
import sys

VERIF = os.path.dirname(os.path.dirname(os.path.abspath(__file__)))
sys.path.insert(0, os.path.join(VERIF, 'rules'))

props = [json.loads(l) for l in open(os.path.join(VERIF, 'properties.jsonl'))]

NOT_BUILT = 'check not built yet (framework under construction, see DESIGN.md)'
NOT_APPLICABLE = {}

checks = []
na = []
for p in props:
    pid = p['id']
    modpath = os.path.join(VERIF, 'rules', pid.lower() + '.py')
    if not os.path.exists(modpath):
        na.append({'property_id': pid, 'reason': NOT_APPLICABLE.get(pid, NOT_BUILT)})
        continue
    mod = importlib.import_module(pid.lower())
    checks.append({
        'property_id': pid,
        'quick_cmd': './check %s' % pid,
        'thorough_cmd': './check %s --tier thorough' % pid,
        'evidence_file': '/verif/evidence/%s.json' % pid,
        'replay_cmd_template': './check --replay {path}',
        'engine': 'srfacts+rules',
        'level_claimed': {
            'category': 'other',
            'text': mod.LEVEL_TEXT,
            'design_ref': 'DESIGN.md section 4, %s' % pid,
        },
        'level_note': getattr(mod, 'LEVEL_NOTE',
                              'Trusted: rustc nightly type checking, trait resolution and MIR '
                              'construction; cargo build graph; the rule tables in rules/%s.py. The '
                              'decided clauses are structural necessary conditions of the property, '
                              'not the behavioural statement itself.' % pid.lower()),
        'technique': getattr(mod, 'TECHNIQUE',
                             'static analysis: custom MIR rules (dominance, cut-reachability, '
                             'edge-labelled control dependence, def-use provenance, field coverage) '
                             'over facts extracted by a rustc_private driver'),
    })

manifest = {
    'version': 1,
    'setup_cmd': './check --setup',
    'hooks': {
        'guard': 'getong_stateright_verif',
        'enable': 'none needed: the checks analyse /repo as it is built by `cargo check --lib`; '
                  'nothing in /repo is instrumented',
        'baseline_off_cmd': 'cd /repo && cargo test --workspace --no-fail-fast --offline',
        'source_commits': [],
        'add_only': True,
    },
    'engines': [{
        'name': 'srfacts+rules',
        'path': 'engine/ (extractor), rules/ (rule engine), check (driver)',
        'serves_properties': [c['property_id'] for c in checks],
        'kind_free_text': 'rustc_private MIR/ADT/impl fact extractor injected with '
                          'RUSTC_WORKSPACE_WRAPPER under cargo +nightly check, plus a Python rule '
                          'engine; purely static, nothing from /repo is executed',
    }],
    'checks': checks,
    'notes': 'Fix commits in /repo (unguarded, message starts with fix:) are listed in '
             'known_findings.json as status=fixed; open genuine defects as status=known.',
    'not_applicable': na,
}
with open(os.path.join(VERIF, 'MANIFEST.json'), 'w') as f:
    json.dump(manifest, f, indent=1)
print('claimed:', [c['property_id'] for c in checks])
print('not applicable / not built:', [n['property_id'] for n in na])
