#!/bin/bash
# run every check against every stored/new refactoring patch given as arguments; print only alarms
for f in "$@"; do r=$(python3 /verif/tools/patchtest.py $f 2>&1 | tail -6 | cut -c1-330); case "$r" in *"exit 0 silent"*) ;; *) echo "== $f"; echo "$r";; esac; done
