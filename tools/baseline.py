#!/usr/bin/env python3
"""Run the repository's test suite (guard off) and compare with /root/.vp/BASELINE.json."""
import json, re, subprocess, sys, os
repo = sys.argv[1] if len(sys.argv) > 1 else '/repo'
base = json.load(open('/root/.vp/BASELINE.json'))
want = set(base['stable_pass'])
env = dict(os.environ, CARGO_NET_OFFLINE='true')
if len(sys.argv) > 2:
    env['CARGO_TARGET_DIR'] = sys.argv[2]
r = subprocess.run('cargo test --workspace --no-fail-fast --offline --lib -- --test-threads 8', shell=True, cwd=repo,
                   stdout=subprocess.PIPE, stderr=subprocess.STDOUT, text=True, env=env)
ok = set(); failed = set()
for m in re.finditer(r'^test (\S+)(?: - should panic)? \.\.\. (\w+)', r.stdout, re.M):
    name = 'stateright::' + m.group(1)
    (ok if m.group(2) == 'ok' else failed).add(name)
missing = sorted(want - ok)
print('passed %d, failed %d; baseline %d, baseline tests not passing: %d' % (len(ok), len(failed), len(want), len(missing)))
for m in missing: print('  NOT PASSING:', m)
unexpected = sorted(f for f in failed if f not in base['always_fail'])
for f in unexpected: print('  unexpected failure:', f)
if not ok: print(r.stdout[-3000:])
sys.exit(1 if missing else 0)
