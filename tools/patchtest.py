#!/usr/bin/env python3
"""Apply a patch to a scratch copy of /repo and run every claimed check on it.
   tools/patchtest.py <patch.diff> [props...]      prints per-property exit codes and fired rules"""
import json, os, re, shutil, subprocess, sys, tempfile
VERIF = os.path.dirname(os.path.dirname(os.path.abspath(__file__)))
def sh(c, **k): return subprocess.run(c, shell=True, stdout=subprocess.PIPE, stderr=subprocess.STDOUT, text=True, **k)
patch = os.path.abspath(sys.argv[1]); props = sys.argv[2:]
scratch = tempfile.mkdtemp(prefix='sr_pt_'); evd = tempfile.mkdtemp(prefix='sr_pt_ev_')
try:
    sh('rsync -a --exclude target --exclude .git /repo/ %s/' % scratch)
    r = sh('patch -p1 --no-backup-if-mismatch -s < %s' % patch, cwd=scratch)
    if r.returncode != 0:
        print('PATCH DOES NOT APPLY', r.stdout[:300]); sys.exit(2)
    env = dict(os.environ, VERIF_EVIDENCE_DIR=evd, VERIF_TIER='quick')
    cmd = '%s/check %s --repo %s' % (VERIF, ' '.join(props) if len(props) == 1 else '--all', scratch)
    r = sh(cmd, env=env)
    fired = {}
    cur = None
    for l in r.stdout.splitlines():
        m = re.match(r'^VIOLATION property=(C\d+)', l)
        if m: cur = m.group(1)
        m2 = re.match(r'^\s+rule (\S+) at (.*)$', l)
        if m2 and cur: fired.setdefault(cur, []).append(m2.group(1) + ' ' + m2.group(2)[:230])
    if r.returncode == 2: print(r.stdout[-1500:])
    print('exit', r.returncode, 'ALARMS' if fired else 'silent')
    for k, v in sorted(fired.items()):
        for x in v: print('  %s: %s' % (k, x))
finally:
    shutil.rmtree(scratch, ignore_errors=True); shutil.rmtree(evd, ignore_errors=True)
