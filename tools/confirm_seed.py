#!/usr/bin/env python3
"""Confirm a sub-agent's seeded change in a fresh scratch worktree of /repo HEAD and store it under
/verif/seeded/<name>/ :   tools/confirm_seed.py <src_dir> <name> <property>
src_dir holds patch.diff, demo.rs, notes.md."""
import json, os, re, shutil, subprocess, sys, time
src, name, prop = sys.argv[1], sys.argv[2], sys.argv[3]
VERIF = '/verif'
wt = '/tmp/confirm_%s' % name
def sh(c, **k):
    return subprocess.run(c, shell=True, stdout=subprocess.PIPE, stderr=subprocess.STDOUT, text=True, **k)
sh('git -C /repo worktree remove --force %s' % wt)
r = sh('git -C /repo worktree add --detach %s HEAD' % wt)
assert r.returncode == 0, r.stdout
meta = {'property': prop, 'name': name, 'repo_head': sh('git -C /repo rev-parse --short HEAD').stdout.strip(), 'ran': []}
env = dict(os.environ, CARGO_TARGET_DIR=wt + '/target', CARGO_NET_OFFLINE='true')
try:
    os.makedirs(wt + '/tests', exist_ok=True)
    shutil.copy(os.path.join(src, 'demo.rs'), wt + '/tests/seed_demo.rs')
    def demo():
        r = sh('timeout 600 cargo test --offline --test seed_demo 2>&1 | tail -40', cwd=wt, env=env)
        ok = re.search(r'test result: ok', r.stdout) is not None and 'FAILED' not in r.stdout
        return ok, r.stdout[-1500:]
    # without the change
    ok0, out0 = demo()
    meta['ran'].append({'cmd': 'cargo test --offline --test seed_demo   (unchanged tree)', 'passes': ok0})
    r = sh('git apply --whitespace=nowarn %s' % os.path.abspath(os.path.join(src, 'patch.diff')), cwd=wt)
    assert r.returncode == 0, 'patch does not apply: ' + r.stdout
    ok1, out1 = demo()
    meta['ran'].append({'cmd': 'cargo test --offline --test seed_demo   (with patch.diff applied)', 'passes': ok1})
    r = sh('%s/tools/baseline.py %s %s' % (VERIF, wt, wt + '/target'))
    base_ok = r.returncode == 0
    meta['ran'].append({'cmd': 'tools/baseline.py (cargo test --lib, with patch.diff applied)', 'passes': base_ok,
                        'summary': r.stdout.strip().splitlines()[0] if r.stdout.strip() else ''})
    meta['confirmed'] = bool(ok0 and not ok1 and base_ok)
    print('demo unchanged passes=%s; demo with change passes=%s; baseline with change ok=%s => confirmed=%s'
          % (ok0, ok1, base_ok, meta['confirmed']))
    if not meta['confirmed']:
        print(out0[-600:]); print(out1[-600:]); print(r.stdout[-600:])
    else:
        d = os.path.join(VERIF, 'seeded', name)
        os.makedirs(d, exist_ok=True)
        shutil.copy(os.path.join(src, 'patch.diff'), d)
        shutil.copy(os.path.join(src, 'demo.rs'), d)
        notes = open(os.path.join(src, 'notes.md')).read() if os.path.exists(os.path.join(src, 'notes.md')) else ''
        open(os.path.join(d, 'notes.md'), 'w').write(notes)
        meta['demo_failure_excerpt'] = out1[-700:]
        json.dump(meta, open(os.path.join(d, 'meta.json'), 'w'), indent=1)
finally:
    sh('git -C /repo worktree remove --force %s' % wt)
    shutil.rmtree(wt, ignore_errors=True)
