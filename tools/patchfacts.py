#!/usr/bin/env python3
"""Apply a patch to a scratch copy of /repo, extract the facts (cached by content hash) and print
the fact file path:   tools/patchfacts.py <patch.diff>"""
import os, shutil, subprocess, sys, tempfile
import importlib.machinery, importlib.util
VERIF = os.path.dirname(os.path.dirname(os.path.abspath(__file__)))
ld = importlib.machinery.SourceFileLoader('checkmod', os.path.join(VERIF, 'check'))
spec = importlib.util.spec_from_loader('checkmod', ld); cm = importlib.util.module_from_spec(spec); ld.exec_module(cm)
patch = os.path.abspath(sys.argv[1])
scratch = tempfile.mkdtemp(prefix='sr_pf_')
try:
    subprocess.run('rsync -a --exclude target --exclude .git /repo/ %s/' % scratch, shell=True, check=True)
    r = subprocess.run('patch -p1 --no-backup-if-mismatch -s < %s' % patch, shell=True, cwd=scratch)
    if r.returncode != 0:
        sys.exit(2)
    print(cm.extract(scratch))
finally:
    shutil.rmtree(scratch, ignore_errors=True)
