#!/usr/bin/env python3
"""Self-test of the rule engine: apply each mutant of mutants/*.json to a scratch copy of /repo,
extract facts, run the property's rules and require that the expected rule fires (and, for
behaviour-preserving variants, that nothing fires).

  tools/mutest.py [-k substr] [--prop C01] [--keep]
"""
import argparse, glob, json, os, shutil, subprocess, sys, tempfile

VERIF = os.path.dirname(os.path.dirname(os.path.abspath(__file__)))
REPO = os.environ.get('VERIF_REPO', '/repo')


def sh(cmd, **kw):
    return subprocess.run(cmd, shell=True, stdout=subprocess.PIPE, stderr=subprocess.STDOUT, text=True, **kw)


def load(prop=None, k=None):
    ms = []
    for f in sorted(glob.glob(os.path.join(VERIF, 'mutants', '*.json'))):
        for m in json.load(open(f)):
            m['_file'] = os.path.basename(f)
            if prop and prop not in m['props']:
                continue
            if k and k not in m['name']:
                continue
            ms.append(m)
    return ms


def run_parallel(ms, jobs, verbose=True):
    """split the mutants over `jobs` worker processes, each with its own scratch copy and target dir"""
    import concurrent.futures
    chunks = [ms[i::jobs] for i in range(jobs)]
    res = []
    with concurrent.futures.ProcessPoolExecutor(max_workers=jobs) as ex:
        futs = [ex.submit(run, ch, False, verbose, os.path.join(VERIF, '.cache', 'target-w%d' % i))
                for i, ch in enumerate(chunks) if ch]
        for f in futs:
            res += f.result()
    return res


def run(ms, keep=False, verbose=True, target=None):
    scratch = tempfile.mkdtemp(prefix='sr_mut_')
    evd = tempfile.mkdtemp(prefix='sr_mut_ev_')
    res = []
    try:
        sh('rsync -a --exclude target --exclude .git %s/ %s/' % (REPO, scratch))
        for m in ms:
            # apply
            touched = {}
            applicable = True
            if m.get('patch'):
                # a unified diff (relative to the repo root) applied before the string edits
                pf = os.path.join(VERIF, m['patch'])
                files = [l[6:].strip() for l in open(pf) if l.startswith('+++ b/')]
                for f_ in files:
                    fp = os.path.join(scratch, f_)
                    touched.setdefault(fp, open(fp).read())
                r = sh('patch -p1 --no-backup-if-mismatch -s < %s' % pf, cwd=scratch)
                if r.returncode != 0:
                    applicable = False
            for ed in (m.get('edits', []) if applicable else []):
                p = os.path.join(scratch, ed['file'])
                src = open(p).read()
                touched.setdefault(p, src)
                cnt = src.count(ed['old'])
                want = ed.get('count', 1)
                if cnt != want:
                    applicable = False
                    break
                open(p, 'w').write(src.replace(ed['old'], ed['new']))
            if not applicable:
                res.append((m['name'], 'SKIP', 'edit does not apply to the current tree'))
                for p, src in touched.items():
                    open(p, 'w').write(src)
                if verbose:
                    print('%-55s SKIP (edit does not apply)' % m['name'])
                continue
            status, note = 'OK', ''
            for prop in m['props']:
                env = dict(os.environ, VERIF_EVIDENCE_DIR=evd, VERIF_TIER='quick')
                if target:
                    env['VERIF_TARGET_DIR'] = target
                r = sh('%s/check %s --repo %s' % (VERIF, prop, scratch), env=env)
                out = r.stdout
                fired = [l for l in out.splitlines() if l.strip().startswith('rule ')]
                if r.returncode == 2:
                    status, note = 'BUILD-FAIL', out[-600:]
                    break
                if m.get('expect_silent'):
                    if r.returncode != 0:
                        status, note = 'FALSE-ALARM', '\n'.join(fired)[:600]
                else:
                    exp = m['expect']
                    if r.returncode != 1 or not any(any(e in l for e in exp) for l in fired):
                        status, note = 'MISSED', (prop + ': rc=%d ' % r.returncode + '\n'.join(fired)[:400] +
                                                  (' || ' + out[-300:] if not fired else ''))
                    elif m.get('must_name') and not any(m['must_name'] in l for l in fired):
                        status, note = 'WRONG-SITE', '\n'.join(fired)[:400]
            res.append((m['name'], status, note))
            if verbose:
                print('%-55s %s %s' % (m['name'], status, note.replace('\n', ' | ')[:300] if status != 'OK' else ''))
            for p, src in touched.items():
                open(p, 'w').write(src)
    finally:
        if not keep:
            shutil.rmtree(scratch, ignore_errors=True)
        shutil.rmtree(evd, ignore_errors=True)
    return res


if __name__ == '__main__':
    ap = argparse.ArgumentParser()
    ap.add_argument('-k')
    ap.add_argument('--prop')
    ap.add_argument('--keep', action='store_true')
    ap.add_argument('-j', type=int, default=1)
    a = ap.parse_args()
    res = run_parallel(load(a.prop, a.k), a.j) if a.j > 1 else run(load(a.prop, a.k), a.keep)
    bad = [r for r in res if r[1] not in ('OK', 'SKIP')]
    print('%d mutants: %d ok, %d skipped, %d bad' % (len(res), len([r for r in res if r[1] == 'OK']),
                                                     len([r for r in res if r[1] == 'SKIP']), len(bad)))
    sys.exit(1 if bad else 0)
