#!/usr/bin/env python3
"""Record the functions of the reference tree (current /repo). Functions that are NOT in this list
are helpers introduced by a later refactoring: the rule engine splices them into their callers."""
import json, os, subprocess, sys
VERIF = os.path.dirname(os.path.dirname(os.path.abspath(__file__)))
r = subprocess.run([os.path.join(VERIF, 'check'), '--setup'], stdout=subprocess.PIPE, text=True)
facts = sorted((f for f in os.listdir(os.path.join(VERIF, '.cache')) if f.startswith('facts-')),
               key=lambda f: os.path.getmtime(os.path.join(VERIF, '.cache', f)))[-1]
j = json.load(open(os.path.join(VERIF, '.cache', facts)))
names = sorted(b['path'] for b in j['bodies'] if b['kind'] != 'Closure')
json.dump(names, open(os.path.join(VERIF, 'rules', 'known_functions.json'), 'w'), indent=0)
print(len(names), 'functions recorded from', facts)
