#!/usr/bin/env python3
"""Record the functions of the reference tree (current /repo). Functions that are NOT in this list
are helpers introduced by a later refactoring: the rule engine splices them into their callers."""
import json, os, subprocess, sys
VERIF = os.path.dirname(os.path.dirname(os.path.abspath(__file__)))
import importlib.machinery, importlib.util
loader = importlib.machinery.SourceFileLoader('checkmod', os.path.join(VERIF, 'check'))
spec = importlib.util.spec_from_loader('checkmod', loader)
cm = importlib.util.module_from_spec(spec)
loader.exec_module(cm)
facts_path = cm.extract('/repo')
facts = os.path.basename(facts_path)
j = json.load(open(os.path.join(VERIF, '.cache', facts)))
def sig(b):
    cs = sorted(set(bl['term'].get('callee', '') for bl in b['blocks'] if bl['term']['k'] == 'call' and not bl['cleanup']))
    return [b['arg_count'], cs]
names = dict((b['path'], sig(b)) for b in j['bodies'] if b['kind'] != 'Closure')
json.dump(names, open(os.path.join(VERIF, 'rules', 'known_functions.json'), 'w'), indent=0, sort_keys=True)
print(len(names), 'functions recorded from', facts)

# closures of the reference tree: top-level function -> std combinators that receive one of its closures
sys.path.insert(0, os.path.join(VERIF, 'rules'))
import desugar
raw = dict((b['path'], b) for b in j['bodies'])
seen = {}
def rec(cpath, kind, body):
    root = body.get('root') or body['path']
    seen.setdefault(root, set()).add(kind)
    return False
ds = desugar.Desugarer(raw, rec)
for b in j['bodies']:
    ds.run(b)
json.dump(dict((k, sorted(v)) for k, v in seen.items()), open(os.path.join(VERIF, 'rules', 'known_closures.json'), 'w'),
          indent=0, sort_keys=True)
print(sum(len(v) for v in seen.values()), 'closure/combinator pairs recorded in', len(seen), 'functions')
