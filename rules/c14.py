"""C14 - the sequential-consistency tester: structural clauses only."""
import tester_rules as T
import c04
from common import bodies_with_closures

LEVEL_TEXT = (
    'Static rules over SequentialConsistencyTester (and its relation to LinearizabilityTester): the '
    'same sticky well-formedness and search-skeleton/backtracking-hygiene rules as C08; both testers '
    'are plain values (no interior mutability or shared pointers in their fields, Clone derived), so '
    'recording into a clone cannot alias the original; the pruning reasons of the SC search are a '
    'subset of those of the linearizability search (same skeleton minus the real-time tests), which '
    'is the structural half of "every linearizable history is sequentially consistent". The iff is '
    'NOT decided.')

FLOORS = {'C14-R1': 9, 'C14-R3': 8, 'C14-R4': 4, 'C14-R5': 2, 'C14-R6': 2, 'C14-R7': 1}


def prune_profile(F, ty):
    b = T.tester_fn(F, ty, 'serialize')
    names = set()
    for x in bodies_with_closures(F, b):
        for c in x.calls:
            if c.is_('SequentialSpec::is_valid_step'):
                names.add('illegal-step')
            if c.is_('SequentialSpec::invoke'):
                names.add('apply-in-flight')
            if c.is_('BTreeMap::contains_key') or (c.is_('BTreeMap::get') and x.branch(c, 'None') and
                                                   x.branch(c, 'Some') and x is b and
                                                   any(i_.bb in x.reach([e[1] for e in x.branch(c, 'Some')])
                                                       for i_ in x.calls_to('SequentialSpec::invoke'))):
                # the thread has an operation in flight (asked with contains_key, or by looking it up)
                names.add('needs-in-flight')
            if c.is_('Iterator::any'):
                names.add('real-time')
            if c.is_('VecDeque::pop_front'):
                names.add('program-order-front')
            if c.is_('VecDeque::pop_back', 'VecDeque::remove', 'VecDeque::swap_remove_back'):
                names.add('out-of-order-take')
    return names


def run(ctx):
    F = ctx.facts
    ctx.doc('C14-R1', 'well-formedness is sticky (as C08-R1) for the SC tester')
    ctx.doc('C14-R3', 'search skeleton + backtracking hygiene for the SC tester')
    ctx.doc('C14-R4', 'both testers are plain values: no interior mutability / shared pointers; Clone is derived')
    ctx.doc('C14-R5', 'SC search = linearizability search minus the real-time tests; completed operations are '
                      'taken from the front of each thread queue (program order)')
    with ctx.rule('C14-R1', T.SC):
        T.r1_sticky(ctx, F, T.SC, 'C14-R1')
    with ctx.rule('C14-R3', T.SC):
        T.search_skeleton(ctx, F, T.SC, 'C14-R3', lin=False)
    ctx.doc('C14-R6', 'the recursive search shares no mutable state between sibling branches, or its memo keys '
                      'depend on every input (object state, remaining history, in-flight operations)')
    with ctx.rule('C14-R6', T.SC):
        T.search_is_pure_or_memo_complete(ctx, F, T.SC, 'C14-R6')
        T.candidates_are_independent(ctx, F, T.SC, 'C14-R6')
    ctx.doc('C14-R7', 'on_invret is on_invoke followed by on_return (own override or trait default)')
    with ctx.rule('C14-R7', T.SC):
        T.invret_is_invoke_then_return(ctx, F, T.SC, 'C14-R7')
    c04.rule_r5(ctx, F, rule='C14-R4', types=[T.LIN, T.SC])
    for ty in (T.LIN, T.SC):
        ims = [im for im in F.impls_of('Clone') if im['self_tree'].get('path') == ty]
        ctx.check(len(ims) == 1 and ims[0].get('derived'), 'C14-R4', 'clone-derived:%s' % ty.split('::')[-1], ty,
                  good='Clone is derived (field-wise deep copy)',
                  bad='%s: Clone is not the derived field-wise copy: a clone may share state with the original' % ty)
    with ctx.rule('C14-R5', 'inclusion'):
        pl, ps = prune_profile(F, T.LIN), prune_profile(F, T.SC)
        ctx.check(ps <= pl and 'real-time' not in ps and 'real-time' in pl, 'C14-R5', 'sc-prunes-subset-of-lin', T.SC,
                  good='SC prunes for %s, linearizability additionally for real-time order' % sorted(ps),
                  bad='the SC search prunes for reasons the linearizability search does not have (%s): a '
                      'linearizable history can be rejected as not sequentially consistent' % sorted(ps - pl))
        for ty, p in ((T.LIN, pl), (T.SC, ps)):
            ctx.check('program-order-front' in p and 'out-of-order-take' not in p, 'C14-R5',
                      'program-order:%s' % ty.split('::')[-1], ty,
                      good='completed operations are consumed from the front of each thread\'s queue',
                      bad='%s::serialize takes completed operations other than from the front of a thread\'s '
                          'queue: program order is not respected' % ty)
