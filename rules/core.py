"""Rule-instance bookkeeping, known findings, evidence writing."""
import json
import os
import time
from contextlib import contextmanager

from mir import AnchorMissing

VERIF = os.path.dirname(os.path.dirname(os.path.abspath(__file__)))
EVDIR = os.environ.get('VERIF_EVIDENCE_DIR') or os.path.join(VERIF, 'evidence')


class Inst:
    __slots__ = ('rule', 'key', 'fn', 'span', 'ok', 'detail', 'role')

    def __init__(self, rule, key, fn, span, ok, detail, role=''):
        self.rule, self.key, self.fn, self.span, self.ok, self.detail, self.role = \
            rule, key, fn, span, ok, detail, role

    def as_json(self):
        return {'rule': self.rule, 'key': self.key, 'function': self.fn, 'span': self.span,
                'verdict': 'holds' if self.ok else 'VIOLATED', 'detail': self.detail}


class Ctx:
    """Collects rule instances for one property evaluation."""

    def __init__(self, facts, prop):
        self.facts = facts
        self.prop = prop
        self.insts = []
        self.rules_doc = {}
        self.functions = set()
        self.call_sites = 0

    def doc(self, rule, text):
        self.rules_doc[rule] = text

    def _add(self, rule, role, fn, span, ok, detail):
        key = '%s|%s|%s' % (rule, fn, role)
        self.insts.append(Inst(rule, key, fn, span, ok, detail, role))
        if fn:
            self.functions.add(fn)

    def ok(self, rule, role, body_or_fn, detail='', span=None):
        fn, sp = _site(body_or_fn, span)
        self._add(rule, role, fn, sp, True, detail)

    def bad(self, rule, role, body_or_fn, detail, span=None):
        fn, sp = _site(body_or_fn, span)
        self._add(rule, role, fn, sp, False, detail)

    def check(self, cond, rule, role, body_or_fn, good='', bad='', span=None):
        if cond:
            self.ok(rule, role, body_or_fn, good, span)
        else:
            self.bad(rule, role, body_or_fn, bad or ('expected: ' + good), span)
        return cond

    @contextmanager
    def rule(self, rule, where=''):
        """Anchor resolution failures inside the block become fail-closed violations."""
        try:
            yield
        except AnchorMissing as e:
            self._add(rule, 'anchor-missing', where, '', False, 'anchor missing: %s' % e)
        except Exception as e:  # the code no longer has the shape the rule can read: fail closed
            import traceback
            tb = traceback.extract_tb(e.__traceback__)[-1]
            self._add(rule, 'anchor-missing', where, '', False,
                      'anchor missing: the rule could not be evaluated on this tree (%s: %s at %s:%d)' %
                      (type(e).__name__, e, os.path.basename(tb.filename), tb.lineno))

    def touched(self, body):
        self.functions.add(body.path)


def _site(body_or_fn, span):
    if hasattr(body_or_fn, 'path'):
        return body_or_fn.path, span or body_or_fn.span
    return str(body_or_fn), span or ''


def load_known_findings():
    p = os.path.join(VERIF, 'known_findings.json')
    if not os.path.exists(p):
        return []
    with open(p) as f:
        return json.load(f)['findings']


def finish(ctx, floors, tier, seed, t0, extra=None, level_text='', quiet=False):
    """Apply floors + known findings, write evidence, print report lines, return exit code."""
    prop = ctx.prop
    per_rule = {}
    for i in ctx.insts:
        per_rule.setdefault(i.rule, []).append(i)
    # floors: fail closed when a rule resolved fewer instances than were counted by hand
    for rule, floor in floors.items():
        got = len([i for i in per_rule.get(rule, []) if i.role != 'anchor-missing'])
        if got < floor:
            ctx._add(rule, 'floor', '', '', False,
                     'rule %s resolved %d instance(s), floor is %d: the check refuses to pass vacuously'
                     % (rule, got, floor))
    known = [k for k in load_known_findings() if k['property'] == prop]
    known_open = dict((k['key'], k) for k in known if k.get('status') == 'known')
    viol, kf = [], []
    for i in ctx.insts:
        if i.ok:
            continue
        if i.key in known_open:
            kf.append(i)
        else:
            viol.append(i)
    os.makedirs(os.path.join(EVDIR, 'violations'), exist_ok=True)
    lines = []
    for i in kf:
        lines.append('KNOWN-FINDING: property=%s %s [%s]' % (prop, known_open[i.key]['what'], i.key))
    for n_, i in enumerate(viol):
        rp = os.path.join(EVDIR, 'violations', '%s-%d.json' % (prop, n_))
        with open(rp, 'w') as f:
            json.dump({'property': prop, 'instance': i.as_json(), 'facts': ctx.facts.path}, f, indent=1)
        lines.append('VIOLATION property=%s replay=%s' % (prop, rp))
        lines.append('  rule %s at %s (%s): %s' % (i.rule, i.fn, i.span, i.detail))
    distinct = len(set(i.key for i in ctx.insts if i.role not in ('anchor-missing', 'floor')))
    holds = [i for i in ctx.insts if i.ok]
    samples = [i.as_json() for i in (viol + kf)[:10]] + [i.as_json() for i in holds[:12]]
    ev = {
        'property_id': prop,
        'tier': tier,
        'seed': seed,
        'level': 'other',
        'coverage': {
            'explanation': level_text,
            'evaluations': len(ctx.insts),
            'distinct_nontrivial': distinct,
            'rule': 'one evaluation = one rule instance (rule x function x role) whose anchors were '
                    'resolved in the MIR of the current tree; distinct = distinct instance keys; an '
                    'instance is non-trivial because its anchors had to resolve (anchor-missing and '
                    'floor pseudo-instances are not counted)',
            'samples': samples,
            'exhaustive': True,
            'rules': ctx.rules_doc,
            'instances_per_rule': dict((r, len(v)) for r, v in sorted(per_rule.items())),
            'floors': floors,
            'functions_analysed': sorted(ctx.functions),
            'call_sites_in_analysed_functions': sum(len(ctx.facts.bodies[f].calls) for f in ctx.functions
                                                    if f in ctx.facts.bodies),
            'basic_blocks_in_analysed_functions': sum(len(ctx.facts.bodies[f].live_blocks()) for f in ctx.functions
                                                      if f in ctx.facts.bodies),
            'spliced_helpers': dict((k, v) for k, v in getattr(ctx.facts, 'inlined', {}).items()),
            'functions_treated_as_renamed': getattr(ctx.facts, 'renamed', {}),
            'closures_expanded_as_new': dict((k, v) for k, v in getattr(ctx.facts, 'desugared', {}).items()),
            'functions_read_in_loop_normal_form': dict(
                (k, b.j.get('desugared', [])) for k, b in getattr(ctx.facts, '_norm', {}).items()
                if b.j.get('desugared') and k in ctx.functions),
            'bodies_in_fact_file': ctx.facts.nbodies,
            'fact_file': os.path.basename(ctx.facts.path),
            'known_findings': [i.key for i in kf],
            'violations': [i.as_json() for i in viol],
        },
        'assumptions': [
            'rustc nightly type checking, trait resolution and MIR construction are trusted',
            'the decided clauses are structural necessary conditions; the behavioural statement '
            'itself is not decided (see DESIGN.md per-property "Not decided")',
        ],
        'wall_s': round(time.time() - t0, 3),
        'violations': len(viol),
    }
    if extra:
        ev['coverage'].update(extra)
    with open(os.path.join(EVDIR, '%s.json' % prop), 'w') as f:
        json.dump(ev, f, indent=1)
    if not quiet:
        print('%s: %d rule instances over %d functions; %d hold, %d known finding(s), %d violation(s)'
              % (prop, len(ctx.insts), len(ctx.functions), len(holds), len(kf), len(viol)))
        for l in lines:
            print(l)
    return 1 if viol else 0
