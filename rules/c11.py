"""C11 - eventually-properties: never a false alarm (DESIGN.md section 4, C11)."""
import c03
from checkers import CB, Spawn, noref
from mir import AnchorMissing, V

LEVEL_TEXT = (
    'Static rules over the eventually-bit bookkeeping of all four check loops: the "no false alarm" '
    'mechanisms of C03 (terminal flag cleared after any in-boundary successor; terminal insert never '
    'overwrites an existing discovery; simulation records only at a dead end or closed cycle) plus '
    'bit bookkeeping (bits are indexed by the position in the properties() iteration at set, clear '
    'and test sites; set only for Expectation::Eventually; successors inherit a clone of the bits '
    'cleared in this iteration), plus the coverage rules of C01 that "exact on forests" presupposes. '
    'Exactness on forest-shaped models as a semantic statement is not decided.')

FLOORS = {'C03-R2': 3, 'C03-R3': 4, 'C03-R4': 1, 'C03-R7': 1, 'C03-R8': 1, 'C11-R1': 14, 'C01-R1': 3, 'C01-R2': 3, 'C01-R3': 12,
          'C01-R4': 8, 'C01-R5': 3, 'C01-R7': 5, 'C01-R9': 3, 'C01-R10': 4}


def enumerate_index_of_properties(b, v):
    """True if value v is field 0 of an item produced by Iterator::next of an
    Enumerate<slice::Iter<Property>>."""
    v = noref(v)
    if v.kind == 'local':
        # the loop item may arrive through a join (the `Some(item)` an expanded `filter` hands on)
        from taint import vals_of
        vs = vals_of(b, v)
        return bool(vs) and all(x.kind != 'local' and enumerate_index_of_properties(b, x) for x in vs)
    if v.kind != 'call':
        return False
    c = b.call_at(v.key)
    if c is None or not c.is_('Iterator::next'):
        return False
    if not (c.targs and 'Enumerate' in c.targs[0] and 'Property<' in c.targs[0]):
        return False
    fs = v.fields()
    return fs == ('.0', '.0') and enumerates_properties_directly(b, c)


def enumerates_properties_directly(b, nxt):
    """The Enumerate that `nxt` pulls from counts the elements of the properties() slice itself: nothing
    that drops, skips or reorders elements (filter, skip, rev, a collected subset, ...) sits between the slice
    and `enumerate()`, so the index is the property's position in Model::properties() - the numbering every
    other site (initial bits, terminal report) uses."""
    SRC = ('IntoIterator::into_iter', 'Deref::deref')
    v = noref(b.trace(b.val(nxt.args[0]), SRC))
    if v.kind == 'local' and not v.projs:
        ds = [d for d in b.defs.get(v.key, []) if d[1] == 'call' or not d[2]['lhs']['p']]
        if len(ds) == 1 and ds[0][1] == 'call':
            v = noref(b.trace(V('call', ds[0][0]), SRC))
    e = b.call_at(v.key) if v.kind == 'call' and not v.fields() else None
    if e is None or not e.is_('Iterator::enumerate'):
        return False
    src = noref(b.trace(b.val(e.args[0]), SRC + ('slice::iter', 'Vec::iter', 'Arc::new', 'Clone::clone')))
    if src.kind == 'arg':
        return True
    sc = b.call_at(src.key) if src.kind == 'call' and not src.fields() else None
    return sc is not None and sc.is_('Model::properties')


def r1_bits(ctx, F, rule='C11-R1'):
    for strat in ('BFS', 'DFS', 'OD', 'SIM'):
        with ctx.rule(rule, strat):
            cb = CB(F, strat)
            b = cb.b
            ctx.touched(b)
            sites = [(c, 'clear') for c in cb.eb_remove] + [(c, 'test') for c in cb.eb_contains]
            if not cb.eb_remove or not (cb.eb_contains or cb.eb_iter_heads):
                raise AnchorMissing('%s: IdSet::remove / IdSet::contains sites' % b.path)
            # bits walked directly: the property reported for bit i is properties[i]
            from taint import origins as _org
            for (h, sc) in cb.eb_iter_heads:
                gets = [g for g in b.calls_to('slice::get', 'Index::index', 'Vec::get') if len(g.args) > 1 and
                        any(isinstance(o, tuple) and o[0] == 'proj' and o[1] is h for o in _org(b, g.args[1]))]
                okg = bool(gets)
                for g in gets:
                    recv = noref(b.trace(b.val(g.args[0]), ('Deref::deref', 'Vec::as_slice')))
                    src_ok = recv.kind == 'arg' or (recv.kind == 'call' and b.call_at(recv.key) is not None and
                                                    b.call_at(recv.key).is_('Model::properties'))
                    okg = okg and src_ok
                ctx.check(okg, rule, 'index@test', b,
                          good='the set bits are walked and bit i selects properties()[i]',
                          bad='%s: the eventually bits are walked, but the bit index does not select properties()[i]: '
                              'another property is reported' % strat, span=h.span)
            for c, what in sites:
                ok = enumerate_index_of_properties(b, b.val(c.args[1]))
                ctx.check(ok, rule, 'index@%s' % what, b,
                          good='bit %s uses the index of the properties() enumeration' % what,
                          bad='%s: eventually bit %s uses index %r, which is not the position of the '
                              'property in the properties() enumeration: the bit of another property '
                              'is cleared/tested' % (strat, what, b.val(c.args[1])), span=c.span)
            # the cleared set and the tested set are the same local
            rs = set(noref(b.val(c.args[0])) for c in cb.eb_remove)
            ts = set(noref(b.val(c.args[0])) for c in cb.eb_contains) | \
                set(noref(b.val(sc.args[0])) for (h, sc) in cb.eb_iter_heads)
            ctx.check(rs == ts and len(rs) == 1, rule, 'same-bitset', b,
                      good='cleared and tested bit set are the same local',
                      bad='%s: bits are cleared in %s but tested in %s' % (strat, rs, ts))
            # clearing is control dependent on condition == true in the Eventually arm
            for c in cb.eb_remove:
                conds = cb.cond_in_arm('Eventually')
                ok = False
                for cc in conds:
                    te = b.branch(cc, True)
                    if te and b.edges_dominate(te, c.bb, frm=[cc.bb]):
                        ok = True
                ctx.check(ok, rule, 'clear-iff-condition-true', b,
                          good='bit cleared only when the eventually condition returned true',
                          bad='%s: eventually bit is cleared on a path where the condition did not '
                              'return true' % strat, span=c.span)
            if strat != 'SIM':
                # inheritance: enqueued bits are a clone of the local that remove mutated
                bits = next(iter(rs)) if rs else None
                for e in cb.enq:
                    v = b.val(e.args[1])
                    ok = False
                    if v.kind == 'agg' and len(v.key[3]) >= 3:
                        ev = noref(b.trace(v.key[3][2], ('Clone::clone',)))
                        ok = ev == bits
                    ctx.check(ok, rule, 'successor-inherits-bits', b,
                              good='successor job carries a clone of the bits cleared in this iteration',
                              bad='%s: bits enqueued with a successor (%r) are not a clone of the '
                                  'bit set cleared in this iteration (%r)' %
                                  (strat, v.key[3][2] if v.kind == 'agg' and len(v.key[3]) >= 3 else v, bits),
                              span=e.span)
                # the job's bits come from the dequeued job
                ok = bits is not None and cb.job_field(bits) == 2 if bits is not None and bits.kind == 'call' else \
                    bits is not None and cb.job_field(b.local_val(bits.key) if bits.kind == 'local' else bits) == 2
                ctx.check(ok, rule, 'bits-from-job', b,
                          good='bit set is field 2 of the dequeued job',
                          bad='%s: bit set %r is not the dequeued job\'s' % (strat, bits))
            # initial bits: insert control-dependent on Expectation::Eventually, index of enumeration
            # (normal form A12: a `for` loop with `if let`, `filter(matches!(..)).for_each(insert)` and
            # `filter(..).map(|(i, _)| i).collect()` are the same initialisation)
            from common import collected_elements
            from taint import origins
            init_body = F.norm(b if strat == 'SIM' else Spawn(F, strat).b)
            sites = [(c, c.args[1]) for c in init_body.calls_to('IdSet::insert')]
            sites += [(y, el) for (y, el, col) in collected_elements(init_body, lambda t: t.startswith('id_set::IdSet'))]
            if not sites:
                raise AnchorMissing('%s: initial IdSet::insert' % init_body.path)
            for c, el in sites:
                org = origins(init_body, el)
                ok1 = bool(org) and all(isinstance(o, tuple) and o[0] == 'proj' and o[1].is_('Iterator::next') and
                                        o[1].targs and 'Enumerate' in o[1].targs[0] and 'Property<' in o[1].targs[0] and
                                        o[2] == ('Some', '0', '0') and enumerates_properties_directly(init_body, o[1])
                                        for o in org)
                ok2 = False
                for sw in init_body.switches:
                    if sw.kind == 'variant' and sw.on.fields() and sw.on.fields()[-1] == '.expectation':
                        ev = sw.edges_for('Eventually')
                        if ev and init_body.edges_dominate(ev, c.bb):
                            ok2 = True
                if not ok2:
                    # ... or asked with `==`: `p.expectation == Expectation::Eventually`
                    from c07 import promoted_variant
                    for q in init_body.calls_to('PartialEq::eq', 'PartialEq::ne'):
                        vs = [init_body.val(a) for a in q.args[:2]]
                        if not any(noref(v).fields()[-1:] == ('.expectation',) for v in vs):
                            continue
                        pv = None
                        for v in vs:
                            for x in (v, noref(v)):
                                pv = pv or promoted_variant(init_body, V(x.kind, x.key))
                        is_eq = q.is_('PartialEq::eq')
                        ev = init_body.branch(q, is_eq)
                        if pv == 'Eventually' and ev and init_body.edges_dominate(ev, c.bb):
                            ok2 = True
                ctx.check(ok1 and ok2, rule, 'initial-bits', init_body,
                          good='initial bit set for exactly the Eventually properties, by enumeration index',
                          bad='%s: initial eventually bits are not set by enumeration index under '
                              'Expectation::Eventually (index ok=%s, guarded=%s)' % (strat, ok1, ok2),
                          span=c.span)


def run(ctx):
    F = ctx.facts
    ctx.doc('C03-R2', 'terminal flag is false on every path from an in-boundary successor to the terminal test')
    ctx.doc('C03-R3', 'terminal eventually-insert never overwrites an existing discovery once bit '
                      'maintenance has stopped for that property')
    ctx.doc('C03-R4', 'simulation records an eventually counterexample only at a dead end or closed cycle')
    ctx.doc('C11-R1', 'eventually bits are set/cleared/tested by properties() enumeration index, set only '
                      'for Expectation::Eventually, cleared only when the condition held, and inherited '
                      'by successors as a clone of the set cleared in this iteration')
    for strat in ('BFS', 'DFS', 'OD', 'SIM'):
        if strat != 'SIM':
            with ctx.rule('C03-R2', strat):
                c03.r2_terminal_flag(ctx, CB(F, strat))
        with ctx.rule('C03-R3', strat):
            c03.r3_no_overwrite(ctx, CB(F, strat))
    with ctx.rule('C03-R4', 'SIM'):
        c03.r4_sim_end(ctx, F)
    ctx.doc('C03-R7', 'simulation: the per-trace cycle-detection set is fresh for every trace')
    with ctx.rule('C03-R7', 'SIM'):
        c03.r7_sim_fresh_cycle_set(ctx, F)
    ctx.doc('C03-R8', 'simulation: the recorded / evaluated state itself passed within_boundary (an initial state '
                      'outside the boundary is not a maximal in-boundary path)')
    with ctx.rule('C03-R8', 'SIM'):
        c03.r8_sim_evaluated_state_in_boundary(ctx, F)
    r1_bits(ctx, F)
    # exactness on forests presupposes that every reachable in-boundary state is evaluated
    import c01
    c01.coverage_rules(ctx, F)
