"""C04 - state identity is faithful (DESIGN.md section 4, C04)."""
import re

from common import (adt_fields, bodies_with_closures, field_accesses, impl_method, on_all_paths,
                    outer_val, type_mentions)
from mir import AnchorMissing, V, short


def noref(v):
    return V(v.kind, v.key, [p for p in v.projs if p not in ('ref', 'deref')])

LEVEL_TEXT = (
    'Static field-coverage, sibling-agreement, prefix-freedom and type-walk rules over every manual '
    'Hash/PartialEq impl of the crate, the two hashable containers, fingerprint() and the identity-'
    'relevant state types. Decides: every field feeds Hash and Eq, both read the same fields, '
    'hand-rolled container hashes write a length to the outer hasher, the per-element hasher is the '
    'fixed-seed one and a sort precedes the feed loop, no interior mutability / pointer identity in '
    'state types. Does not decide collision-freedom or value-level coherence of VectorClock.')

FLOORS = {'C04-R1': 8, 'C04-R2': 4, 'C04-R3': 3, 'C04-R4': 6, 'C04-R5': 8, 'C04-R6': 4, 'C04-R7': 5, 'C20-R4': 3}

HASH = 'std::hash::Hash'
PEQ = 'std::cmp::PartialEq'

# Manual impls whose field coverage is legitimately partial: none today.
R1_EXCEPTIONS = {}

COLLECTIONS = ('std::collections::HashSet', 'std::collections::HashMap', 'std::vec::Vec',
               'std::collections::VecDeque', 'std::collections::BTreeMap',
               'std::collections::BTreeSet', 'std::collections::hash::set::HashSet',
               'std::collections::hash::map::HashMap')

LEN_FEEDING_SELF = re.compile(
    r'^(usize|\[.*\]|&\[.*\]|std::vec::Vec<.*|std::collections::VecDeque<.*|str|&str|'
    r'std::string::String|std::collections::BTreeMap<.*|std::collections::BTreeSet<.*)$')

INTERIOR = re.compile(r'(::Cell$|::RefCell$|::Mutex$|::RwLock$|::Atomic|::OnceCell$|::UnsafeCell$|'
                      r'::Rc$|::OnceLock$|::LazyCell$)')


def local_struct(F, im):
    t = im['self_tree']
    if t.get('k') == 'adt' and t['path'] in F.adts and F.adts[t['path']]['kind'] == 'Struct':
        return F.adts[t['path']]
    return None


def manual_impls(F, trait):
    out = []
    for im in F.impls_of(trait):
        if im.get('derived'):
            continue
        adt = local_struct(F, im)
        if adt is None:
            continue
        # only PartialEq<Self>
        if trait == PEQ and not re.search(r' as std::cmp::PartialEq>$', im['trait_full']):
            continue
        out.append((im, adt))
    return out


def rule_r1_r2(ctx, F, rule1='C04-R1', rule2='C04-R2', only_field=None):
    """Field coverage of manual Hash / PartialEq and agreement between the two."""
    ctx.doc(rule1, 'every manual Hash/PartialEq impl on a local struct reads every field of the '
                   'struct (eq: on both operands)')
    ctx.doc(rule2, 'Hash and PartialEq of one type read the same fields, and are both derived or '
                   'both manual')
    reads = {}
    for trait, meth in ((HASH, 'hash'), (PEQ, 'eq')):
        for im, adt in manual_impls(F, trait):
            body = impl_method(F, im, meth)
            if body is None:
                ctx.bad(rule1, '%s-missing' % meth, im['path'], 'impl does not provide %s' % meth)
                continue
            ctx.touched(body)
            acc = field_accesses(F, body, adt['path'])
            want = adt_fields(adt)
            roots = [V('arg', 1)] + ([V('arg', 2)] if meth == 'eq' else [])
            got_all = set()
            for ri, root in enumerate(roots):
                got = set(f for (r, f, c) in acc if r == root)
                got_all |= got if ri == 0 else set()
                for f in want:
                    if only_field and f != only_field:
                        continue
                    role = '%s.%s' % ('self' if ri == 0 else 'other', f)
                    if (adt['path'], meth, f) in R1_EXCEPTIONS:
                        ctx.ok(rule1, role, body, 'exception: ' + R1_EXCEPTIONS[(adt['path'], meth, f)])
                        continue
                    ctx.check(f in got, rule1, role, body,
                              good='%s reads field `%s` of %s' % (meth, f, adt['path']),
                              bad='%s::%s never reads field `%s` of its %s operand: two values that '
                                  'differ only in `%s` are %s' %
                                  (adt['path'], meth, f, 'self' if ri == 0 else 'other', f,
                                   'fed to the hasher identically' if meth == 'hash' else 'reported equal'))
            if meth == 'hash':
                # every field must be fed on every path, not just on some
                for f in want:
                    if only_field and f != only_field:
                        continue
                    fed = []
                    for bb_ in bodies_with_closures(F, F.norm(body)):
                        for c in bb_.calls:
                            if not c.is_('Hash::hash', 'Hasher::write', 'Hasher::write_u8', 'Hasher::write_u32',
                                         'Hasher::write_u64', 'Hasher::write_usize'):
                                continue
                            for a in c.args:
                                if a['k'] not in ('copy', 'move'):
                                    continue
                                ob, ov = outer_val(F, bb_, bb_.val(a))
                                if ov.kind == 'arg' and ov.key == 1 and ov.fields()[:1] == ('.' + f,):
                                    fed.append((bb_, c))
                    if not fed:
                        # the field is not handed to the hasher as a whole: it is walked and its elements are fed
                        # one by one. Then every element must be fed - a feed that some elements skip makes
                        # values that differ in a skipped element hash alike.
                        if f not in got_all:
                            continue  # reported by the coverage instance above
                        from taint import origins
                        nb = F.norm(body)
                        elem_feeds = []
                        derived = False
                        for bb_ in bodies_with_closures(F, nb):
                            for c in bb_.calls:
                                if not c.is_('Hash::hash') or not c.args or c.args[0].get('k') not in ('copy', 'move'):
                                    continue
                                for o in origins(bb_, c.args[0]):
                                    if isinstance(o, tuple) and o[0] == 'proj' and o[1].is_('Iterator::next'):
                                        src = noref(iter_root(F, bb_, o[1]))
                                        if src.kind == 'arg' and src.key == 1 and src.fields()[:1] == ('.' + f,):
                                            elem_feeds.append((bb_, c, o[1]))
                                    elif not isinstance(o, (tuple, str)) and o.is_('Index::index', 'Deref::deref', 'AsRef::as_ref',
                                                                                 'Vec::as_slice', 'Borrow::borrow'):
                                        ob, ov = outer_val(F, bb_, bb_.trace(V('call', o.bb), (
                                            'Index::index', 'Deref::deref', 'AsRef::as_ref', 'Vec::as_slice', 'Borrow::borrow')))
                                        if ov.kind == 'arg' and ov.key == 1 and ov.fields()[:1] == ('.' + f,):
                                            derived = True
                        if not derived and not elem_feeds:
                            # the field is read, but what reaches the hasher is neither the field, nor a view of
                            # it, nor its elements one by one. A per-element hasher (HashableHashSet/Map: the
                            # elements are hashed into inner hashers whose results are fed) is judged by R3/R4/R6;
                            # anything else is a digest - a count, a length, a sum - that forgets which elements
                            inner = [c for bb_ in bodies_with_closures(F, nb) for c in bb_.calls
                                     if c.is_('Hasher::finish', 'BuildHasher::hash_one')]
                            if not inner:
                                ctx.bad(rule1, 'self.%s-fed-as-itself' % f, body,
                                        '%s::hash reads `%s` but feeds the hasher only something computed from it (a '
                                        'count / length / sum): values that differ in `%s` but agree in that digest '
                                        'are fed to the hasher identically' % (adt['path'], f, f))
                            continue
                        if derived or not elem_feeds:
                            continue  # a view of the field (a sub-slice) is fed / per-element hashers: R3, R4, R6
                        okk = True
                        for (bb_, c, head) in elem_feeds:
                            some = bb_.branch(head, 'Some')
                            if not some:
                                okk = False
                                continue
                            r = bb_.reach([e[1] for e in some], cut_blocks=[c.bb])
                            if head.bb in r:
                                okk = False
                        ctx.check(okk, rule1, 'self.%s-every-element' % f, body,
                                  good='every element of `%s` is fed to the hasher' % f,
                                  bad='%s::hash walks `%s` but can skip an element without feeding it: two values that '
                                      'differ only in a skipped element are fed to the hasher identically (while eq '
                                      'tells them apart or not - either way the fingerprint is no longer faithful)' %
                                      (adt['path'], f))
                        continue
                    ok = any(on_all_paths(F, bb_, c.bb) for (bb_, c) in fed)
                    ctx.check(ok, rule1, 'self.%s-on-every-path' % f, body,
                              good='field `%s` is fed to the hasher on every path' % f,
                              bad='%s::hash feeds field `%s` only on some paths (an early exit skips it): '
                                  'values taking that path are hashed without it' % (adt['path'], f))
            reads[(adt['path'], meth)] = (set(f for (r, f, c) in acc if r == V('arg', 1)), body)
    if only_field:
        return
    # R2: agreement
    by_adt = {}
    for im in F.impls_of(HASH) + F.impls_of(PEQ):
        t = im['self_tree']
        if t.get('k') != 'adt' or t['path'] not in F.adts:
            continue
        tr = 'hash' if im['trait'].endswith('Hash') else 'eq'
        if tr == 'eq' and not re.search(r' as std::cmp::PartialEq>$', im['trait_full']):
            continue
        by_adt.setdefault(t['path'], {})[tr] = im
    for path, d in sorted(by_adt.items()):
        if 'hash' in d and 'eq' in d:
            dh, de = d['hash']['derived'], d['eq']['derived']
            if dh != de:
                ctx.bad(rule2, 'derivedness', d['hash']['path'],
                        '%s: Hash is %s but PartialEq is %s' %
                        (path, 'derived' if dh else 'manual', 'derived' if de else 'manual'),
                        span=d['hash']['span'])
            elif not dh:
                rh = reads.get((path, 'hash'))
                re_ = reads.get((path, 'eq'))
                if rh is None or re_ is None:
                    continue
                ctx.check(rh[0] == re_[0], rule2, 'same-fields', rh[1],
                          good='%s: hash and eq read the same fields %s' % (path, sorted(rh[0])),
                          bad='%s: hash reads %s but eq reads %s' % (path, sorted(rh[0]), sorted(re_[0])))
            else:
                ctx.ok(rule2, 'derivedness', d['hash']['path'], '%s: both derived' % path,
                       span=d['hash']['span'])


def iter_root(F, b, nxt):
    """what the iterator pulled by `nxt` walks: through into_iter / iter / enumerate / zip(first) / copied ..."""
    v = b.val(nxt.args[0])
    for _ in range(6):
        v = noref(b.trace(noref(v), ('IntoIterator::into_iter', 'slice::iter', 'Vec::iter', 'Iterator::enumerate',
                                     'Iterator::copied', 'Iterator::cloned', 'Deref::deref', 'Iterator::zip',
                                     'Iterator::rev', 'Iterator::by_ref', 'HashSet::iter', 'HashMap::iter',
                                     'BTreeMap::iter', 'VecDeque::iter')))
        if v.kind == 'local' and not v.projs:
            ds = [d for d in b.defs.get(v.key, []) if d[1] == 'call' or not d[2]['lhs']['p']]
            if len(ds) == 1 and ds[0][1] == 'call':
                v = V('call', ds[0][0])
                continue
        break
    ob, ov = outer_val(F, b, v)
    return ov


def hasher_root(F, b, call):
    """root of the hasher receiver of a Hasher::write_* / Hash::hash call"""
    idx = 0 if call.is_('Hasher::write_usize', 'Hasher::write_length_prefix', 'Hasher::write_u64',
                        'Hasher::write') else 1
    if idx >= len(call.args):
        return None
    v = b.val(call.args[idx])
    ob, ov = outer_val(F, b, v)
    return V(ov.kind, ov.key, [p for p in ov.projs if p not in ('deref', 'ref')])


def length_is_element_count(F, b, c, adt):
    """None if the value fed as length is recognisably the number of elements of this collection,
    otherwise a description of what it is."""
    lv = noref(b.val(c.args[1]))

    def is_len_of(v):
        cc = b.call_at(v.key) if v.kind == 'call' else None
        if cc is None or not cc.short.endswith('::len'):
            return None
        return cc

    def buffer_root(cc):
        return noref(b.trace(b.val(cc.args[0]), ('Deref::deref', 'DerefMut::deref_mut', 'RefCell::borrow',
                                               'RefCell::borrow_mut', 'RefCell::try_borrow_mut',
                                               'Result::unwrap_or_else', 'Result::unwrap')))
    cc = is_len_of(lv)
    if cc is not None:
        r = buffer_root(cc)
        ob, ov = outer_val(F, b, r)
        if ov.kind == 'arg' and ov.key == 1:
            return None  # self.<collection>.len()
        # a scratch buffer: it must have been cleared before it was filled
        clears = [x for x in b.calls_to('Vec::clear')
                  if buffer_root(x) == r and b.dominates(x.bb, cc.bb)]
        if clears:
            return None
        return 'it is the length of a buffer (%r) that is not cleared before use and may hold entries of an ' \
               'enclosing collection' % r
    if lv.kind == 'bin' and lv.key[0] in ('Sub', 'SubWithOverflow', 'SubUnchecked'):
        a, s_ = noref(lv.key[1]), noref(lv.key[2])
        ca, cs = is_len_of(a), is_len_of(s_)
        if ca is not None and cs is not None and buffer_root(ca) == buffer_root(cs) and b.dominates(cs.bb, ca.bb):
            return None  # len(buffer) - len(buffer) at entry
    if lv.kind == 'local':
        return None  # a counter variable: not judged
    return 'it is %r' % lv


def rule_r3(ctx, F, rule='C04-R3'):
    ctx.doc(rule, 'a manual Hash impl that iterates a growable collection itself must feed a length '
                  '(write_usize / write_length_prefix / usize|slice|Vec::hash) to the OUTER hasher')
    for im, adt in manual_impls(F, HASH):
        body = impl_method(F, im, 'hash')
        if body is None:
            continue
        fields = adt['variants'][0]['fields']
        coll = [f for f in fields if f['tree'].get('k') == 'adt' and f['tree']['path'] in COLLECTIONS]
        if not coll:
            continue
        # read in normal form (A12): thread-local scopes, per-element closures and new helpers are spliced in
        bodies = bodies_with_closures(F, F.norm(body))
        iterates = False
        feeds = []
        partial = []
        wrong_len = []
        for b in bodies:
            for c in b.calls:
                if c.is_('HashSet::iter', 'HashMap::iter', 'Vec::iter', 'slice::iter',
                         'IntoIterator::into_iter', 'HashMap::values', 'HashMap::keys', 'Hasher::write_u64',
                         'Hasher::write_u32', 'Hasher::write_u8', 'Hasher::write'):
                    iterates = True
                lenfeed = False
                if c.is_('Hasher::write_usize', 'Hasher::write_length_prefix'):
                    lenfeed = True
                elif c.is_('Hash::hash') and c.targs and LEN_FEEDING_SELF.match(c.targs[0]):
                    lenfeed = True
                if lenfeed:
                    root = hasher_root(F, b, c)
                    if root == V('arg', 2):
                        if on_all_paths(F, b, c.bb):
                            feeds.append(c)
                            if c.is_('Hasher::write_usize', 'Hasher::write_length_prefix'):
                                why = length_is_element_count(F, b, c, adt)
                                if why:
                                    wrong_len.append((c, why))
                        else:
                            partial.append(c)
        if not iterates:
            ctx.ok(rule, 'delegates', body, '%s: collection fields are hashed by delegation to std '
                                            '(length-prefixed) impls' % adt['path'])
            continue
        for (c, why) in wrong_len:
            ctx.bad(rule, 'length-is-own-element-count', body,
                    '%s::hash feeds a length that is not the number of its own elements: %s; equal collections '
                    'can feed different lengths (or different ones the same)' % (adt['path'], why), span=c.span)
        if feeds and not wrong_len:
            ctx.ok(rule, 'length-is-own-element-count', body, 'the length fed is the collection\'s own element count')
        ctx.check(bool(feeds), rule, 'length-prefix', body,
                  good='%s: feeds a length to the outer hasher at %s' %
                       (adt['path'], feeds[0].span if feeds else ''),
                  bad=('%s::hash feeds a length at %s but not on every path (some exit skips it, e.g. '
                       'an early return for an empty collection): values taking that path feed nothing, '
                       'so ({a},{}) and ({},{a}) hash equally' % (adt['path'], partial[0].span)) if partial else
                      ('%s::hash iterates its collection and writes per-element data but never feeds '
                       'a length to the outer hasher: adjacent collections are not prefix-free '
                       '(({a},{}) and ({},{a}) hash equally)' % adt['path']))


def rule_r4(ctx, F, rule='C04-R4'):
    ctx.doc(rule, 'order/seed insensitivity: per-element hasher comes from stable::hasher(), a sort '
                  'of the buffer dominates the write loop, fingerprint() uses stable::hasher(), '
                  'build_hasher() uses RandomState::with_seeds with constant keys')
    for tyname in ('util::HashableHashSet', 'util::HashableHashMap'):
        with ctx.rule(rule, tyname):
            ims = [x for x in manual_impls(F, HASH) if x[1]['path'] == tyname]
            if not ims:
                raise AnchorMissing('manual Hash impl for %s' % tyname)
            body0 = impl_method(F, ims[0][0], 'hash')
            ctx.touched(body0)
            # loop normal form (A12): the thread-local scope, the per-element closure and any helper a
            # refactoring introduced are one control-flow graph
            b = F.norm(body0)
            from taint import origins
            # (a) every Hasher::finish receiver originates from stable::hasher()
            fin = [c for c in b.calls if c.is_('Hasher::finish')]
            if not fin:
                raise AnchorMissing('%s::hash: no per-element Hasher::finish' % tyname)
            for c in fin:
                org = origins(b, c.args[0])
                ok = bool(org) and all(not isinstance(o, (str, tuple)) and o.is_('stable::hasher') for o in org)
                ctx.check(ok, rule, 'element-hasher', body0,
                          good='per-element hasher is stable::hasher()',
                          bad='%s::hash: per-element hasher is not stable::hasher() (got %s): equal '
                              'sets may hash differently across runs/instances' % (tyname, sorted(repr(o) for o in org)),
                          span=c.span)
            banned = [c for c in b.calls
                      if c.is_('RandomState::new', 'DefaultHasher::new', 'BuildHasher::build_hasher',
                               'BuildHasher::hash_one')]
            ctx.check(not banned, rule, 'no-random-state', body0,
                      good='no randomly seeded hasher in %s::hash' % tyname,
                      bad='%s::hash uses a randomly seeded / instance hasher: %s' % (tyname, banned))
            # (b) sort dominates each outer write
            writes = [c for c in b.calls if c.is_('Hasher::write_u64', 'Hasher::write')]
            sorts = [c for c in b.calls if re.search(r'::sort(_unstable)?(_by|_by_key|_by_cached_key)?$', c.short)]
            if not writes:
                raise AnchorMissing('%s::hash: no write of the element hashes to the outer hasher' % tyname)
            for w in writes:
                ok = any(b.dominates(s_.bb, w.bb) and s_.bb != w.bb for s_ in sorts)
                ctx.check(ok, rule, 'sort-before-feed', body0,
                          good='a sort of the pre-hashed buffer dominates the feed loop',
                          bad='%s::hash feeds element hashes in iteration order (no sort '
                              'dominates the write at %s): insertion order / capacity changes '
                              'the hash' % (tyname, w.span), span=w.span)
    with ctx.rule(rule, 'fingerprint'):
        fp = F.body('fingerprint', 'fingerprint()')
        srcs = [c for c in fp.calls if c.is_('stable::hasher')]
        fin = fp.one_call('Hasher::finish', what='fingerprint finish')
        v = fp.val(fin.args[0])
        ok = bool(srcs) and ((v.kind == 'call' and v.key == srcs[0].bb) or
                             (v.kind == 'local' and any(d[0] == srcs[0].bb for d in fp.defs.get(v.key, []))))
        ctx.check(ok, rule, 'fingerprint-hasher', fp,
                  good='fingerprint() hashes with stable::hasher()',
                  bad='fingerprint() does not finish a stable::hasher()')
        hs = [c for c in fp.calls if c.is_('Hash::hash')]
        ctx.check(len(hs) == 1 and fp.val(hs[0].args[0]).kind == 'arg', rule, 'fingerprint-input', fp,
                  good='fingerprint() feeds exactly its argument', bad='fingerprint() does not feed its argument')
    with ctx.rule(rule, 'stable::build_hasher'):
        bh = F.body('stable::build_hasher')
        c = bh.one_call('RandomState::with_seeds', what='fixed seeds')
        consts = all(a['k'] == 'const' for a in c.args) and len(c.args) == 4
        ctx.check(consts, rule, 'fixed-seeds', bh, good='RandomState::with_seeds(4 constants)',
                  bad='stable::build_hasher seeds are not compile-time constants')
        h = F.body('stable::hasher')
        ctx.check(len(h.calls_to('stable::build_hasher')) == 1, rule, 'hasher-from-build', h,
                  good='stable::hasher() = build_hasher().build_hasher()',
                  bad='stable::hasher() does not derive from build_hasher()')


def rule_r6(ctx, F, rule='C04-R6'):
    ctx.doc(rule, 'the per-element closure of a container hash feeds every component of the element '
                  '(set: the value; map: key AND value) to the per-element hasher')
    for tyname, comps in (('util::HashableHashSet', [()]), ('util::HashableHashMap', [('.0',), ('.1',)])):
        with ctx.rule(rule, tyname):
            ims = [x for x in manual_impls(F, HASH) if x[1]['path'] == tyname]
            if not ims:
                raise AnchorMissing('manual Hash impl for %s' % tyname)
            body0 = impl_method(F, ims[0][0], 'hash')
            ctx.touched(body0)
            el = F.norm(body0)
            from taint import origins
            fins = el.calls_to('Hasher::finish')
            if len(fins) != 1:
                raise AnchorMissing('%s::hash: per-element hashing (one Hasher::finish expected, found %d)' %
                                    (tyname, len(fins)))
            fin = fins[0]
            heads = [c for c in el.calls_to('Iterator::next') if el.in_cycle(c.bb) and el.dominates(c.bb, fin.bb)]
            if not heads:
                raise AnchorMissing('%s::hash: loop over the elements' % tyname)
            head = max(heads, key=lambda c: len([1 for x in heads if el.dominates(x.bb, c.bb)]))
            hsrc = origins(el, fin.args[0])
            fed_projs = []
            for c in el.calls_to('Hash::hash'):
                if not (el.dominates(head.bb, c.bb) and el.dominates(c.bb, fin.bb)):
                    continue
                if origins(el, c.args[1]) != hsrc:
                    continue     # feeds some other hasher
                org = origins(el, c.args[0])
                if org and all(isinstance(o, tuple) and o[0] == 'proj' and o[1] is head for o in org):
                    for o in org:
                        fed_projs.append(o[2])
                else:
                    # the components may be fed together, as a tuple built from them: `(key, value).hash(..)`
                    # (a tuple hashes its fields in order, without framing)
                    tv = noref(el.val(c.args[0]))
                    if tv.kind == 'agg' and tv.key[0] == 'tuple' and not tv.fields():
                        for o_ in tv.key[3]:
                            o_ = noref(o_)
                            if o_.kind == 'call' and o_.key == head.bb:
                                fed_projs.append(tuple(q[3:] if q.startswith('as ') else q[1:]
                                                       for q in o_.projs if q not in ('ref', 'deref')))
            fed = set()
            if comps == [()]:
                if fed_projs:
                    fed.add(())
            else:
                # key and value are the two components (.0 / .1) of one and the same item
                for a_ in fed_projs:
                    for b_2 in fed_projs:
                        if a_[:-1] == b_2[:-1] and a_[-1:] == ('0',) and b_2[-1:] == ('1',):
                            fed.add(('.0',))
                            fed.add(('.1',))
            missing = [c for c in comps if c not in fed]
            ctx.check(not missing, rule, 'element-components', body0,
                      good='every component of an element is fed to its hasher before finish()',
                      bad='%s::hash: the per-element hashing does not feed component(s) %s of the element: '
                          'entries that differ only there (e.g. same key, different value) hash equally' %
                          (tyname, ['value' if m == ('.1',) else 'key' if m == ('.0',) else 'element' for m in missing]))
            # the element hash is that hasher's finish(): it is what goes into the buffer
            ok = False
            for c in el.calls:
                if c.is_('desugar::yield', 'Vec::push', 'Extend::extend_one') and len(c.args) >= 2:
                    if origins(el, c.args[1]) == {fin}:
                        ok = True
            ctx.check(ok, rule, 'element-hash-is-finish', body0, good='the buffered value is inner_hasher.finish()',
                      bad='%s::hash: the value buffered per element is not inner_hasher.finish()' % tyname)


STATE_TYPES = [
    'actor::model_state::ActorModelState', 'actor::network::Network', 'actor::network::Envelope',
    'actor::timers::Timers', 'actor::model_state::RandomChoices', 'util::densenatmap::DenseNatMap',
    'util::vector_clock::VectorClock', 'util::HashableHashSet', 'util::HashableHashMap',
    'semantics::linearizability::LinearizabilityTester',
    'semantics::sequential_consistency::SequentialConsistencyTester', 'actor::Id',
]


def rule_r5(ctx, F, rule='C04-R5', types=None):
    ctx.doc(rule, 'identity-relevant state types contain no interior mutability, raw pointers or '
                  'shared pointers (Arc allowed only in ActorModelState.actor_states) and '
                  'actor::model never uses Arc pointer identity / in-place mutation')
    for tp in (types or STATE_TYPES):
        with ctx.rule(rule, tp):
            adt = F.adt(tp, 'state type')
            for v in adt['variants']:
                for f in v['fields']:
                    def pred(n):
                        if n.get('k') == 'ptr':
                            return True
                        if n.get('k') == 'adt':
                            if INTERIOR.search(n['path']):
                                return True
                            if n['path'] == 'std::sync::Arc' and not (
                                    tp.endswith('ActorModelState') and f['name'] == 'actor_states'):
                                return True
                        return False
                    hits = type_mentions(f['tree'], pred, F)
                    ctx.check(not hits, rule, '%s.%s' % (v['name'], f['name']), tp,
                              good='%s.%s: %s is a plain value type' % (tp, f['name'], f['ty'][:60]),
                              bad='%s.%s has type %s containing %s: state identity can change '
                                  'behind Hash/Eq' % (tp, f['name'], f['ty'],
                                                      [h.get('path', h.get('k')) for h in hits]),
                              span=adt['span'])
    bad = [c for c in F.all_calls('Arc::get_mut', 'Arc::make_mut', 'Arc::as_ptr', 'Arc::ptr_eq',
                                  'Arc::into_raw', 'Arc::get_mut_unchecked')
           if c.body.path.startswith('actor::model') or '<actor::model' in c.body.path]
    ctx.check(not bad, rule, 'no-arc-identity', 'actor::model*',
              good='no Arc::get_mut/make_mut/as_ptr/ptr_eq in actor::model*',
              bad='Arc pointer identity / in-place mutation used: %s' % [c.where() for c in bad])


def run(ctx):
    F = ctx.facts
    rule_r1_r2(ctx, F)
    rule_r3(ctx, F)
    rule_r4(ctx, F)
    rule_r5(ctx, F)
    rule_r6(ctx, F)
    with ctx.rule('C04-R7', 'set-like state'):
        rule_r7(ctx, F)
    # "equal states never split": the flow map has ONE representation of "nothing in flight on this flow" - no
    # entry. on_deliver / on_drop remove a flow they empty (and only then), siblings of one another
    import c07
    ctx.doc('C07-R3', 'ordered flows: push_back on send, front on read, order-preserving single removal; an emptied '
                      'flow is removed from the map')
    ctx.doc('C07-R2', 'per-variant effect kinds; on_deliver and on_drop agree on the non-duplicating and ordered arms')
    with ctx.rule('C07-R3', 'network'):
        c07.r3_fifo(ctx, F)
    with ctx.rule('C07-R2', 'network'):
        c07.r2_effect_kinds(ctx, F)
    # "trailing-zero padding": the vector clock's hash leaves out the padding and nothing else
    import c20
    ctx.doc('C20-R4', 'VectorClock::hash feeds one length-prefixed slice of the components, cut by a scan from the back')
    with ctx.rule('C20-R4', 'VectorClock'):
        c20.vclock_hash_rules(ctx, F)


SET_LIKE = [
    # (type, variant, field, what the field means) - collections whose element ORDER has no meaning
    ('actor::timers::Timers', 'Timers', '0', 'the set of timers that are set'),
    ('actor::model_state::RandomChoices', 'RandomChoices', 'map', 'the pending random choices by key'),
    ('actor::network::Network', 'UnorderedDuplicating', '0', 'the set of envelopes in flight'),
    ('actor::network::Network', 'UnorderedNonDuplicating', '0', 'the multiset of envelopes in flight'),
    ('actor::network::Network', 'Ordered', '0', 'the flows by (src, dst)'),
]
CANONICAL = ('util::HashableHashSet', 'util::HashableHashMap', 'std::collections::BTreeSet', 'std::collections::BTreeMap')


def rule_r7(ctx, F, rule='C04-R7'):
    ctx.doc(rule, 'collections of the state whose element order has no meaning (timers set, pending choices, '
                  'unordered networks, the flow map) are kept in a representation whose Hash/Eq ignore insertion '
                  'order (HashableHashSet/Map, BTreeSet/Map), or the owning type implements Hash and Eq by hand')
    manual = set()
    for tr in (HASH, PEQ):
        for im, adt in manual_impls(F, tr):
            manual.add((adt['path'], tr))
    for (ty, var, fld, what) in SET_LIKE:
        adt = F.adt(ty, 'state type')
        vs = [v for v in adt['variants'] if v['name'] == var]
        fs = [f for v in vs for f in v['fields'] if f['name'] == fld]
        if not fs:
            raise AnchorMissing('%s::%s.%s' % (ty, var, fld))
        f = fs[0]
        head = f['tree'].get('path') if f['tree'].get('k') == 'adt' else None
        by_hand = (ty, HASH) in manual and (ty, PEQ) in manual
        ctx.check(head in CANONICAL or by_hand, rule, '%s::%s.%s' % (ty.split('::')[-1], var, fld), ty,
                  good='%s is a %s' % (what, head),
                  bad='%s::%s.%s (%s) is a %s with derived Hash/Eq: two states that hold the same elements inserted '
                      'in a different order are unequal and fingerprint differently, so commuting interleavings are '
                      'explored as distinct states' % (ty, var, fld, what, f['ty'][:60]), span=adt['span'])
