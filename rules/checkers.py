"""Role resolution for the four checker strategies (BFS, DFS, on-demand, simulation).

Every anchor is found by role in the MIR (callee, parameter type, def-use), never by name or line.
"""
import re

from common import outer_val
from mir import AnchorMissing, V

STRATS = {
    'BFS': r'^checker::bfs::BfsChecker::<M>::check_block$',
    'DFS': r'^checker::dfs::DfsChecker::<M>::check_block$',
    'OD': r'^checker::on_demand::OnDemandChecker::<M>::check_block$',
    'SIM': r'^checker::simulation::SimulationChecker::<M>::check_trace_from_initial$',
}
SPAWNS = {
    'BFS': r'^checker::bfs::BfsChecker::<M>::spawn$',
    'DFS': r'^checker::dfs::DfsChecker::<M>::spawn$',
    'OD': r'^checker::on_demand::OnDemandChecker::<M>::spawn$',
    'SIM': r'^checker::simulation::SimulationChecker::<M>::spawn$',
}
MODS = {'BFS': 'checker::bfs::', 'DFS': 'checker::dfs::', 'OD': 'checker::on_demand::', 'SIM': 'checker::simulation::'}
EXHAUSTIVE = ('BFS', 'DFS', 'OD')


def noref(v):
    return V(v.kind, v.key, [p for p in v.projs if p not in ('ref', 'deref')])


def is_arg(v, n):
    v = noref(v)
    return v.kind == 'arg' and v.key == n and not v.projs


class CB:
    """Resolved anchors of one check_block-like function."""

    def __init__(self, F, strat):
        self.F = F
        self.strat = strat
        self.b = F.resolve(STRATS[strat],
                           lambda b: bool(b.calls_to('Model::actions')) and bool(b.calls_to('Model::within_boundary')),
                           '%s check_block' % strat, scope=MODS[strat])
        b = self.b
        self.sim = strat == 'SIM'
        ty = lambda i: b.locals[i]['ty']
        self.p_discoveries = b.arg_by_type(lambda t: t.startswith('&dashmap::DashMap<&str,'), 'discoveries')
        self.p_visitor = b.arg_by_type(lambda t: 'CheckerVisitor' in t, 'visitor')
        self.p_model = b.arg_by_type(lambda t: t == '&M', 'model')
        self.p_target_depth = None
        for i in range(1, b.arg_count + 1):
            if ty(i).startswith('std::option::Option<std::num::NonZero<usize>>'):
                self.p_target_depth = i
        self.p_symmetry = None
        for i in range(1, b.arg_count + 1):
            if 'fn(' in ty(i) and ty(i).startswith('std::option::Option<'):
                self.p_symmetry = i
        if not self.sim:
            self.p_pending = b.arg_by_type(lambda t: t.startswith('&mut std::collections::VecDeque<'), 'pending')
            self.p_generated = b.arg_by_type(
                lambda t: re.match(r'^&dashmap::Dash(Map|Set)<std::num::NonZero<u64>', t) is not None, 'generated')
            self.p_max_count = b.arg_by_type(lambda t: t == 'usize', 'max_count')
        self._resolve()

    # ------------------------------------------------------------------
    def _resolve(self):
        b = self.b
        # --- dequeue (exhaustive strategies) ---
        if not self.sim:
            deq = [c for c in b.calls if c.is_('VecDeque::pop_back', 'VecDeque::pop_front', 'Vec::pop')
                   and not c.exp]
            # the dequeue is the pop whose result is switched on and destructured into the job
            deq = [c for c in deq if b.switches_on_call(c)]
            if len(deq) != 1:
                raise AnchorMissing('%s: expected exactly one job dequeue, found %d' % (b.path, len(deq)))
            self.deq = deq[0]
            self.deq_some = b.branch(self.deq, 'Some')
            self.deq_none = b.branch(self.deq, 'None')
            if not self.deq_some or not self.deq_none:
                raise AnchorMissing('%s: dequeue Some/None edges' % b.path)
            self.deq_on_param = is_arg(b.trace(b.val(self.deq.args[0]), ()), self.p_pending)
        # --- model calls ---
        self.actions = b.one_call('Model::actions', what='actions')
        wb = b.calls_to('Model::within_boundary')
        if len(wb) != 1:
            raise AnchorMissing('%s: expected one within_boundary call, found %d' % (b.path, len(wb)))
        self.wb = wb[0]
        self.wb_true = b.branch(self.wb, True)
        self.wb_false = b.branch(self.wb, False)
        # successor event
        ns = b.calls_to('Model::next_state')
        self.succ_direct = None
        if ns:
            if len(ns) != 1:
                raise AnchorMissing('%s: several next_state calls' % b.path)
            self.succ_call = ns[0]
            self.succ_direct = True
            self.succ_some = b.branch(self.succ_call, 'Some')
            self.succ_none = b.branch(self.succ_call, 'None')
        else:
            # Iterator::next on an adaptor whose closure calls Model::next_state
            cands = []
            for c in b.calls_to('Iterator::next'):
                if not c.targs:
                    continue
                m = re.search(r'\{closure@', c.targs[0])
                if 'FlatMap' in c.targs[0] or 'FilterMap' in c.targs[0] or 'Map<' in c.targs[0]:
                    cands.append(c)
            ok = []
            for c in cands:
                # the adaptor's OWN closure (named in its type by source position) is the one that calls next_state
                m = re.search(r'\{closure@([^:}]+):(\d+):', c.targs[0])
                for cl in self.F.closures_of(b):
                    if not cl.calls_to('Model::next_state'):
                        continue
                    if m and not (cl.span or '').startswith('%s:%s' % (m.group(1), m.group(2))):
                        continue
                    ok.append(c)
                    break
            if len(ok) != 1:
                raise AnchorMissing('%s: successor iterator (adaptor over Model::next_state) not found' % b.path)
            self.succ_call = ok[0]
            self.succ_direct = False
            self.succ_some = b.branch(self.succ_call, 'Some')
            self.succ_none = b.branch(self.succ_call, 'None')
        if not self.succ_some:
            raise AnchorMissing('%s: successor Some edge' % b.path)
        # the action loop: iterator next feeding next_state (DFS) or the adaptor itself
        # --- state_count ---
        fa = [c for c in b.calls_to('fetch_add')]
        if not fa:
            raise AnchorMissing('%s: no fetch_add (state_count) found' % b.path)
        roots = set(repr(noref(b.val(c.args[0]))) for c in fa)
        if len(roots) != 1:
            raise AnchorMissing('%s: fetch_add on several different counters' % b.path)
        self.fetch_adds = fa
        self.fetch_add = fa[0]
        # --- visited-set arbitration ---
        self.arb = []  # list of (call, new_edges, seen_edges)
        if self.sim:
            ins = [c for c in b.calls_to('HashSet::insert')]
            for c in ins:
                self.arb.append((c, b.branch(c, True), b.branch(c, False)))
        else:
            for c in b.calls_to('DashMap::entry'):
                if is_arg(b.val(c.args[0]), self.p_generated):
                    self.arb.append((c, b.branch(c, 'Vacant'), b.branch(c, 'Occupied')))
            for c in b.calls_to('DashSet::insert'):
                if is_arg(b.val(c.args[0]), self.p_generated):
                    self.arb.append((c, b.branch(c, True), b.branch(c, False)))
        self.arb_atomic = True
        if not self.arb and not self.sim:
            # a membership test followed by a separate insert: not atomic, but still the place
            # where "new" and "seen" are told apart (C05-R8 reports the non-atomicity)
            for c in b.calls_to('DashMap::contains_key', 'DashSet::contains'):
                if is_arg(b.val(c.args[0]), self.p_generated) and b.branch(c, False):
                    self.arb.append((c, b.branch(c, False), b.branch(c, True)))
                    self.arb_atomic = False
        if not self.arb:
            raise AnchorMissing('%s: visited-set arbitration not found' % b.path)
        # blocks entered once a state has been (or is being) marked visited
        if self.arb_atomic:
            self.marked = [e[1] for (c, n_, s_) in self.arb for e in n_]
        else:
            self.marked = [c.bb for c in b.calls_to('DashMap::insert', 'DashSet::insert')
                           if is_arg(b.val(c.args[0]), self.p_generated)]
        for (c, new, seen) in self.arb:
            if not new or not seen:
                raise AnchorMissing('%s: arbitration result of %r is not branched on' % (b.path, c))
        self.vacant_inserts = [c for c in b.calls_to('VacantEntry::insert')]
        # --- enqueue ---
        if not self.sim:
            self.enq = [c for c in b.calls_to('VecDeque::push_front', 'VecDeque::push_back')
                        if is_arg(b.val(c.args[0]), self.p_pending)]
            if not self.enq:
                raise AnchorMissing('%s: enqueue on pending not found' % b.path)
        # --- property loops ---
        self.prop_next = [c for c in b.calls_to('Iterator::next')
                          if c.targs and 'Property<M>' in c.targs[0]]
        self.cond_calls = [c for c in b.indirect_calls() if self._is_condition(c)]
        if len(self.cond_calls) < 1:
            raise AnchorMissing('%s: expected property condition calls, found %d' %
                                (b.path, len(self.cond_calls)))
        # expectation switch
        self.exp_switch = [sw for sw in b.switches if sw.kind == 'variant' and
                           sw.on.fields() and sw.on.fields()[-1] == '.expectation']
        # the property loop is the first walk over the properties; a condition evaluated in another walk (inside
        # the successor loop, say) is not part of it: it is kept apart and reported by `no_stray_evaluations`
        self.stray_conds = []
        heads_c = [c for c in self.prop_next if b.in_cycle(c.bb)]
        first = [h for h in heads_c if all(b.dominates(h.bb, o.bb) for o in heads_c)]
        if len(heads_c) > 1 and len(first) == 1:
            some0 = b.branch(first[0], 'Some')
            body0 = b.reach([e[1] for e in some0], cut_blocks=[first[0].bb]) if some0 else set()
            inside = [c for c in self.cond_calls if c.bb in body0]
            if inside and len(inside) < len(self.cond_calls) and not any(x in body0 for x in b.returns):
                self.stray_conds = [c for c in self.cond_calls if c.bb not in body0]
                self.cond_calls = inside
                self.exp_switch = [sw for sw in self.exp_switch if sw.bb in body0] or self.exp_switch
        if len(self.exp_switch) < 1:
            raise AnchorMissing('%s: match on Property.expectation not found' % b.path)
        cands = [sw for sw in self.exp_switch
                 if all(b.dominates(sw.bb, c.bb) for c in self.cond_calls)]
        # the innermost one: dominated by every other candidate
        self.exp_main = [sw for sw in cands if all(b.dominates(o.bb, sw.bb) for o in cands)]
        self.merged = False
        if len(self.exp_main) != 1:
            # "merged" form: the condition is evaluated once, in front of the match on the expectation
            # (`let holds = (p.condition)(..); let d = match p.expectation {..}`)
            after = [sw for sw in self.exp_switch if any(b.dominates(c.bb, sw.bb) for c in self.cond_calls)]
            first = [sw for sw in after if all(b.dominates(sw.bb, o.bb) for o in after)]
            if len(first) != 1:
                raise AnchorMissing('%s: main expectation match not unique (%d)' % (b.path, len(self.exp_main)))
            self.exp_main = first
            self.merged = True
        self.exp_main = self.exp_main[0]
        # main property loop = the Iterator::next that dominates the expectation switch
        mains = [c for c in self.prop_next if b.dominates(c.bb, self.exp_main.bb)]
        if not mains:
            raise AnchorMissing('%s: main property loop' % b.path)
        self.prop_loop = max(mains, key=lambda c: len([1 for x in mains if b.dominates(x.bb, c.bb)]))
        self.prop_loop_some = b.branch(self.prop_loop, 'Some')
        self.prop_loop_none = b.branch(self.prop_loop, 'None')
        # --- discoveries ---
        self.disc_inserts = [c for c in b.calls_to('DashMap::insert')
                             if is_arg(b.val(c.args[0]), self.p_discoveries)]
        self.disc_contains = [c for c in b.calls_to('DashMap::contains_key')
                              if is_arg(b.val(c.args[0]), self.p_discoveries)]
        self.disc_entry = [c for c in b.calls_to('DashMap::entry')
                           if is_arg(b.val(c.args[0]), self.p_discoveries)]
        # --- eventually bits ---
        self.eb_remove = b.calls_to('IdSet::remove')
        self.eb_contains = b.calls_to('IdSet::contains')
        self.eb_insert = b.calls_to('IdSet::insert')
        # the bits still set may also be walked directly (`for i in ebits.iter()`): the loop head is the bit test,
        # its Some edge the "bit is set" edge
        self.eb_iter_heads = []
        for h in b.calls_to('Iterator::next'):
            if not h.args:
                continue
            sv = noref(b.trace(b.val(h.args[0]), ('IntoIterator::into_iter',)))
            sc = b.call_at(sv.key) if sv.kind == 'call' and not sv.fields() else None
            if sc is not None and sc.is_('IdSet::iter'):
                self.eb_iter_heads.append((h, sc))
        # eventually inserts = discovery inserts control-dependent on IdSet::contains == true
        self.ev_inserts = []
        entry_ins = []
        for c in b.calls_to('Entry::or_insert', 'Entry::or_insert_with', 'VacantEntry::insert'):
            v = b.val(c.args[0])
            src = b.call_at(v.key) if v.kind == 'call' else None
            if src is not None and src in self.disc_entry:
                entry_ins.append(c)
        for ins in self.disc_inserts + entry_ins:
            for ec in self.eb_contains:
                te = b.branch(ec, True)
                if te and b.edges_dominate(te, ins.bb):
                    self.ev_inserts.append((ins, ec))
                    break
            else:
                for (h, sc) in self.eb_iter_heads:
                    te = b.branch(h, 'Some')
                    if te and b.edges_dominate(te, ins.bb):
                        self.ev_inserts.append((ins, h))
                        break
        self.as_inserts = [c for c in self.disc_inserts if c not in [x[0] for x in self.ev_inserts]]
        # --- what one pass over a property does, per kind of property (and per outcome of its condition)
        self._cells = {}
        # --- visitor ---
        self.visit = b.calls_to('CheckerVisitor::visit')

    def _is_condition(self, c):
        v = self.b.val(c.fnptr)
        return bool(v.fields()) and v.fields()[-1] == '.condition'

    def _reaches_before_loop(self, sw, c):
        return c.bb in self.b.reach([sw.bb])

    # ------------------------------------------------------------------
    def job_field(self, v):
        """If value v derives from the dequeued job, return its tuple field index (0..3)."""
        b = self.b
        v0 = v
        # (a copy of the job's path, however it is spelled: clone of the Vec, to_vec of a slice of it, ...)
        for _ in range(4):
            v2 = noref(b.trace(noref(v), ('Clone::clone', 'NonZero::get', 'slice::to_vec', 'ToOwned::to_owned',
                                          'Deref::deref', 'Vec::as_slice', 'AsRef::as_ref', 'Borrow::borrow')))
            if v2 == v:
                break
            v = v2
        if self.sim:
            return None
        if v.kind == 'call' and v.key == self.deq.bb:
            fs = [p for p in v.projs if p.startswith('.')]
            # (deq as Some).0 is the job tuple; next field is the component
            if len(fs) >= 2 and fs[0] == '.0':
                return int(fs[1][1:]) if fs[1][1:].isdigit() else None
        return None

    def arm_edges(self, variant):
        return self.exp_main.edges_for(variant)

    def prop_switches(self):
        """switches on the expectation of the property of the current iteration"""
        b = self.b
        return [sw for sw in self.exp_switch if b.dominates(self.prop_loop.bb, sw.bb)]

    def cell(self, variant, holds=None):
        """Blocks one pass of the property loop can execute for a property of kind `variant` (and, when
        given, for that outcome of its condition): reachability from the loop's Some edge back to the loop
        head with every test of the expectation / of a condition result constrained accordingly. Works for
        a `match` with one arm per kind as well as for a condition evaluated up front."""
        key = (variant, holds)
        if key in self._cells:
            return self._cells[key]
        b = self.b
        cons = [(self.prop_switches(), variant)]
        if holds is not None:
            sws = []
            for c in self.cond_calls:
                sws += b.switches_on_call(c)
            cons.append((sws, holds))
        r = b.reach_under(cons, [e[1] for e in self.prop_loop_some], cut_blocks=[self.prop_loop.bb])
        self._cells[key] = r
        return r

    def cond_in_arm(self, variant):
        """condition calls evaluated for a property of this kind"""
        b = self.b
        if self.merged:
            r = self.cell(variant)
            return [c for c in self.cond_calls if c.bb in r]
        out = []
        for e in self.arm_edges(variant):
            r = b.reach([e[1]], cut_blocks=[self.prop_loop.bb])
            for c in self.cond_calls:
                if c.bb in r and c not in out:
                    out.append(c)
        return out


def all_blocks(F, strats=('BFS', 'DFS', 'OD', 'SIM')):
    return [(s, CB(F, s)) for s in strats]


# ------------------------------------------------------------------------------------------------
class Spawn:
    """spawn() of a strategy plus its worker closure (the closure handed to thread spawn that calls
    check_block)."""

    def __init__(self, F, strat):
        self.F = F
        self.strat = strat
        self.b = F.resolve(SPAWNS[strat],
                           lambda b: bool(b.calls_to('Builder::spawn', 'thread::spawn')) and
                           bool(b.calls_to('Model::init_states', 'Model::properties')),
                           '%s spawn' % strat, scope=MODS[strat])
        cb = F.resolve(STRATS[strat],
                       lambda b: bool(b.calls_to('Model::actions')) and bool(b.calls_to('Model::within_boundary')),
                       '%s check_block' % strat, scope=MODS[strat])
        workers = []
        for cl in F.closures_under(self.b):
            if any(c.callee == cb.path for c in cl.calls):
                workers.append(cl)
        if len(workers) != 1:
            raise AnchorMissing('%s: worker closure calling check_block not unique (%d)' %
                                (self.b.path, len(workers)))
        self.worker = workers[0]
        self.check_call = [c for c in self.worker.calls if c.callee == cb.path]
        if len(self.check_call) != 1:
            raise AnchorMissing('%s: check_block call in worker' % self.worker.path)
        self.check_call = self.check_call[0]
        self.thread_closures = []
        for cl in F.closures_under(self.b):
            try:
                parent, call, ai = F.closure_consumer(cl)
            except AnchorMissing:
                continue
            if call is not None and call.is_('Builder::spawn', 'thread::spawn'):
                self.thread_closures.append((cl, parent, call))

    def upvar_source(self, idx):
        """value (in spawn) captured as upvar idx of the worker closure"""
        parent, bb, st = self.F.closure_creation(self.worker)
        return parent, parent.val(st['rv']['ops'][idx])

    def options_field_reads(self):
        """names of CheckerBuilder fields read out of the `options` parameter in spawn"""
        from common import iter_places
        out = set()
        for (bb, place, ctx) in iter_places(self.b):
            if place['l'] == 1 and ctx == 'read':
                for e in place['p']:
                    if isinstance(e, dict) and 'f' in e and e.get('base', '').endswith('CheckerBuilder'):
                        out.add(e['name'])
        return out


def no_stray_evaluations(ctx, cb, rule):
    """property conditions are evaluated in the property loop only - on the job that was dequeued - and nowhere
    else (a verdict taken on a successor when it is generated is not the verdict of the state that is recorded
    with it, and it is taken out of the strategy's evaluation order)"""
    b = cb.b
    ctx.check(not cb.stray_conds, rule, 'conditions-evaluated-in-the-property-loop-only', b,
              good='property conditions are evaluated only in the loop over the dequeued state\'s properties',
              bad='%s: a property condition is also evaluated outside the property loop of the dequeued state (%s): '
                  'a state is judged when it is generated, not when the strategy reaches it - discoveries are then '
                  'recorded out of order (BFS: not a shortest witness; depth limit and visitor not applied to it)'
                  % (cb.strat, sorted(c.span for c in cb.stray_conds)),
              span=cb.stray_conds[0].span if cb.stray_conds else None)
