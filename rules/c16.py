"""C16 - the ordered reliable link delivers every message exactly once, in order (structural clauses)."""
from actor_rules import noref
from common import bodies_with_closures, outer_val
from mir import AnchorMissing, V

LEVEL_TEXT = (
    'Static rules over actor::ordered_reliable_link: retransmission discipline (the network timer is '
    're-armed on every path and every pending entry is resent; a pending entry leaves '
    'msgs_pending_ack only in the Ack arm, removed by exactly the acknowledged sequencer; entries are '
    'inserted only by process_output with the same sequencer that is put on the wire, and the '
    'sequencer is incremented after both on every path); an Ack is only sent on paths that either '
    'found the sequencer already handed over or call the wrapped on_msg, and the hand-over is recorded '
    'under the sender\'s id with the incoming sequencer; the hand-over decision cannot see gaps '
    '(known finding). Exactly-once in-order delivery over all interleavings is a model-checking '
    'statement and is NOT decided here.')

FLOORS = {'C16-R1': 9, 'C16-R2': 3, 'C16-R3': 1}

ORL = 'actor::ordered_reliable_link::'
ON_MSG = '<actor::ordered_reliable_link::ActorWrapper<A> as actor::Actor>::on_msg'
ON_TIMEOUT = '<actor::ordered_reliable_link::ActorWrapper<A> as actor::Actor>::on_timeout'
PROCESS_OUTPUT = 'actor::ordered_reliable_link::process_output'

MAP_MUTATORS = ('HashMap::insert', 'HashMap::remove', 'HashMap::retain', 'HashMap::clear', 'HashMap::drain',
                'HashMap::entry', 'HashMap::remove_entry', 'HashMap::extract_if', 'HashMap::get_mut',
                'HashableHashMap::insert', 'HashableHashMap::remove', 'HashMap::values_mut', 'HashMap::iter_mut')


def field_of_receiver(b, c):
    v = noref(b.trace(b.val(c.args[0]), ('DerefMut::deref_mut', 'Deref::deref', 'Cow::to_mut')))
    fs = v.fields()
    return fs[-1] if fs else None


def msg_switch(b, argn):
    sws = [sw for sw in b.switches if sw.kind == 'variant' and noref(sw.on) == V('arg', argn)]
    sws = [s_ for s_ in sws if not any(o is not s_ and b.dominates(o.bb, s_.bb) for o in sws)]
    if len(sws) != 1:
        raise AnchorMissing('%s: match on parameter %d' % (b.path, argn))
    return sws[0]


def r1_retransmission(ctx, F):
    rule = 'C16-R1'
    om = F.body(ON_MSG)
    ot = F.body(ON_TIMEOUT)
    po = F.body(PROCESS_OUTPUT)
    for x in (om, ot, po):
        ctx.touched(x)
    # --- timer arm
    sw = msg_switch(ot, 4)
    edges = sw.edges_for('Network')
    blocks = ot.reach([e[1] for e in edges])
    st = [c for c in ot.calls if c.bb in blocks and c.is_('Out::set_timer')]
    r = ot.reach([e[1] for e in edges], cut_blocks=[c.bb for c in st])
    ok = bool(st) and not any(x in r for x in ot.returns)
    okv = False
    if st:
        tv = ot.val(st[0].args[1])
        okv = tv.kind == 'agg' and tv.key[2] == 'Network'
    ctx.check(ok and okv, rule, 'timer-rearmed', ot,
              good='the resend timer is re-armed on every path of the Network-timer arm',
              bad='ActorWrapper::on_timeout can leave the Network-timer arm without re-arming '
                  'TimerWrapper::Network: retransmission stops and a lost message is never resent')
    sends = [c for c in ot.calls if c.bb in blocks and c.is_('Out::send')]
    filt = [c for c in ot.calls if c.bb in blocks and c.is_('Iterator::filter', 'Iterator::take', 'Iterator::skip',
                                                           'Iterator::filter_map', 'Iterator::take_while',
                                                           'Iterator::skip_while', 'Iterator::step_by')]
    oks = False
    if not sends:
        # the commands may be appended in bulk: `o.0.extend(pending.iter().map(|..| Command::Send(dst, Deliver(..))))`
        # - in normal form (A12) a loop that yields one Command::Send per entry into what `extend` receives
        class _Site:
            pass
        for y in ot.calls_to('desugar::yield'):
            if y.bb not in blocks:
                continue
            from taint import origin_vals as _ov
            evs = _ov(ot, y.args[1]) if y.args[1].get('k') in ('copy', 'move') else {ot.val(y.args[1])}
            if evs and all(ev.kind == 'agg' and ev.key[2] == 'Send' and len(ev.key[3]) == 2 for ev in evs):
                agg_st = [st_ for (i_, si_, st_) in ot.assigns(lambda st_: st_['rv']['k'] == 'agg' and
                                                             st_['rv'].get('variant') == 'Send') if i_ == y.bb or
                          ot.dominates(i_, y.bb)]
                ext = [c for c in ot.calls if c.bb in blocks and c.is_('Extend::extend', 'Vec::extend') and
                       noref(ot.trace(ot.val(c.args[0]), ('DerefMut::deref_mut',))).fields()[-1:] == ('.0',)]
                if len(agg_st) == 1 and ext:
                    s0 = _Site()
                    s0.bb, s0.args = y.bb, [None, agg_st[-1]['rv']['ops'][0], agg_st[-1]['rv']['ops'][1]]
                    sends.append(s0)
    if len(sends) == 1:
        # inside a loop over msgs_pending_ack, unconditional within the iteration
        s_ = sends[0]
        loop = [c for c in ot.calls if c.bb in blocks and c.is_('Iterator::next') and ot.dominates(c.bb, s_.bb)]
        if loop:
            from c01 import iter_source
            src = noref(ot.trace(iter_source(ot, loop[-1]), ('IntoIterator::into_iter', 'Deref::deref',
                                                             'HashMap::iter')))
            some = ot.branch(loop[-1], 'Some')
            rr = ot.reach([e[1] for e in some], cut_blocks=[s_.bb])
            oks = src.fields()[-1:] == ('.msgs_pending_ack',) and loop[-1].bb not in rr
            mv = ot.val(s_.args[2])
            if mv.kind == 'agg':
                okm = mv.key[2] == 'Deliver'
            else:
                # built earlier in the chain (`map(|..| (dst, Deliver(..))).for_each(|(d, m)| o.send(d, m))`)
                from taint import origin_vals
                mvs = origin_vals(ot, s_.args[2]) if s_.args[2].get('k') in ('copy', 'move') else set()
                okm = bool(mvs) and all(v.kind == 'agg' and v.key[2] == 'Deliver' for v in mvs)
            oks = oks and okm
    ctx.check(oks and not filt, rule, 'every-pending-entry-resent', ot,
              good='every entry of msgs_pending_ack is resent as Deliver(seq, msg) when the timer fires',
              bad='ActorWrapper::on_timeout does not resend every pending entry (loop over '
                  'msgs_pending_ack with an unconditional send; filtering adaptors: %s)' %
                  [c.short.split('::')[-1] for c in filt])
    # --- who may mutate msgs_pending_ack
    # (helpers a refactoring introduced are spliced into their callers and judged there)
    spliced = set(F.unknown_functions)
    bodies = [x for x in F.bodies.values() if (x.path.startswith(ORL) or x.path.startswith('<' + ORL)) and
              x.path not in spliced]
    muts = []
    for x in bodies:
        for c in x.calls:
            if c.is_(*MAP_MUTATORS) and c.args and field_of_receiver(x, c) == '.msgs_pending_ack':
                muts.append((x, c))
    if not muts:
        raise AnchorMissing('no mutation site of msgs_pending_ack found')
    swm = msg_switch(om, 5)
    ack_blocks = om.reach([e[1] for e in swm.edges_for('Ack')])
    for (x, c) in muts:
        name = c.short.split('::')[-1]
        if x is po and name == 'insert':
            ctx.ok(rule, 'pending-mutation:%s@%s' % (name, x.path.split('::')[-1]), x,
                   'process_output inserts a pending entry', span=c.span)
            continue
        if x is om and name == 'remove' and c.bb in ack_blocks:
            kv = noref(om.val(c.args[1]))
            ok = kv == V('arg', 5, ('as Ack', '.0'))
            ctx.check(ok, rule, 'pending-mutation:remove@on_msg', x,
                      good='the Ack arm removes exactly the acknowledged sequencer',
                      bad='ActorWrapper::on_msg removes %r from msgs_pending_ack in the Ack arm, not the '
                          'acknowledged sequencer' % kv, span=c.span)
            continue
        ctx.bad(rule, 'pending-mutation:%s@%s' % (name, x.path.split('::')[-1]), x,
                '%s mutates msgs_pending_ack through `%s` outside the sanctioned sites (insert in '
                'process_output, remove(&acked_seq) in the Ack arm): a message that was never acknowledged '
                '(or acknowledged by another peer) stops being retransmitted' % (x.path, name), span=c.span)
    if not any(x is om and c.short.endswith('::remove') for (x, c) in muts):
        ctx.bad(rule, 'pending-mutation:remove@on_msg', om, 'the Ack arm never removes the acknowledged entry')
    # --- process_output: same sequencer on the wire and in the pending map; increment after both
    swc = [sw for sw in po.switches if sw.kind == 'variant' and
           'Send' in [l for (l, t) in sw.edges if isinstance(l, str)]]
    if not swc:
        raise AnchorMissing('process_output: match on Command')
    # (the arm itself: up to the next pull of a command)
    sblocks = po.reach([e[1] for e in swc[0].edges_for('Send')],
                       cut_blocks=[c.bb for c in po.calls_to('Iterator::next') if po.in_cycle(c.bb)])
    snd = [c for c in po.calls if c.bb in sblocks and c.is_('Out::send')]
    ins = [c for c in po.calls if c.bb in sblocks and c.is_('HashMap::insert', 'HashableHashMap::insert')]
    from common import stores_to_field
    incs = [i for (i, st_) in stores_to_field(po, 'next_send_seq') if i in sblocks]
    # the sequencer may be kept in a local while the commands are translated: read from the field before the loop,
    # incremented per send, written back after the loop on every path (`cell` = (local, read block, store block))
    def ssa_root(op):
        # the variable or place an operand is a copy of (through single-assignment temporaries)
        for _ in range(8):
            if op.get('k') not in ('copy', 'move'):
                return ('other', repr(op))
            pl = op['place']
            if pl['p']:
                return ('place', repr(po.val(op)))
            ds_ = po.defs.get(pl['l'], [])
            if len(ds_) != 1 or ds_[0][1] == 'call':
                return ('local', pl['l'])
            rv_ = ds_[0][2]['rv']
            if rv_['k'] == 'use' and rv_['op'].get('k') in ('copy', 'move') and not rv_['op']['place']['p']:
                op = rv_['op']
                continue
            return ('local', pl['l'])       # assigned once, from a read of a place / a computation
        return ('other', '')
    cell = None
    if not incs:
        heads0 = [c for c in po.calls_to('Iterator::next') if po.in_cycle(c.bb)]
        for (i, st_) in stores_to_field(po, 'next_send_seq'):
            rv_ = st_['rv']
            if rv_['k'] != 'use' or rv_['op'].get('k') not in ('copy', 'move') or rv_['op']['place']['p']:
                continue
            root_ = ssa_root(rv_['op'])
            if root_[0] != 'local':
                continue
            L = root_[1]
            ds_ = [d for d in po.defs.get(L, []) if d[1] != 'call' and not d[2]['lhs']['p']]
            init = [d for d in ds_ if d[2]['rv']['k'] == 'use' and
                    po.val(d[2]['rv']['op']).fields()[-1:] == ('.next_send_seq',) and d[0] not in sblocks]
            steps = [d for d in ds_ if d[0] in sblocks]
            if len(init) == 1 and steps and len(init) + len(steps) == len(ds_) and heads0 and \
                    all(po.dominates(init[0][0], h.bb) for h in heads0):
                # every way out of the loop passes the write-back
                nones = [e[1] for h in heads0 for e in po.branch(h, 'None')]
                r_ = po.reach(nones, cut_blocks=[i])
                if nones and not any(x in r_ for x in po.returns):
                    cell = (L, init[0][0], i)
                    incs = sorted(set(d[0] for d in steps))

    ok = len(snd) == 1 and len(ins) == 1 and len(incs) == 1
    if ok:
        wire = po.val(snd[0].args[2])
        wseq = noref(wire.key[3][0]) if wire.kind == 'agg' and wire.key[2] == 'Deliver' else None
        kseq = noref(po.val(ins[0].args[1]))
        is_seq = wseq is not None and (wseq.fields()[-1:] == ('.next_send_seq',) or
                                       (cell is not None and wseq == V('local', cell[0])))
        ok = wseq is not None and wseq == kseq and is_seq
        # the same value: both are copies of one variable that is assigned once (`let seq = state.next_send_seq`),
        # or two reads with no increment between them - the increment block is after both
        wire_ops = [st_['rv']['ops'][0] for (i, si, st_) in po.assigns(
            lambda st_: st_['rv']['k'] == 'agg' and st_['rv'].get('variant') == 'Deliver' and st_['rv']['ops'])
            if i in sblocks]
        roots = set(ssa_root(o_) for o_ in wire_ops) | {ssa_root(ins[0].args[1])}
        one_var = len(wire_ops) == 1 and len(roots) == 1 and next(iter(roots))[0] == 'local' and \
            len(po.defs.get(next(iter(roots))[1], [])) == 1
        ok = ok and (one_var or (po.dominates(snd[0].bb, incs[0]) and po.dominates(ins[0].bb, incs[0])))
        # destination consistency
        dst_w = noref(po.val(snd[0].args[1]))
        pend = po.val(ins[0].args[2])
        dst_p = noref(pend.key[3][0]) if pend.kind == 'agg' and pend.key[3] else None
        ok = ok and dst_p == dst_w
    # every Send of the wrapped actor goes on the wire and into the pending map: no path of the Send arm skips
    # either (two equal payloads are two messages)
    send_edges = [e[1] for e in swc[0].edges_for('Send')]
    heads_ = [c for c in po.calls_to('Iterator::next') if po.in_cycle(c.bb)]
    stop = [h.bb for h in heads_]
    for what, sites in (('send', [c.bb for c in snd]), ('pending-insert', [c.bb for c in ins])):
        r_ = po.reach(send_edges, cut_blocks=sites) if sites else set(stop) | set(po.returns)
        ctx.check(bool(sites) and not any(x in r_ for x in stop) and not any(x in r_ for x in po.returns), rule,
                  'every-send-is-sequenced:%s' % what, po,
                  good='every Send command is wrapped and %s on every path' % ('sent' if what == 'send' else 'recorded as pending'),
                  bad='process_output: a Send command of the wrapped actor can be skipped (%s is conditional): the '
                      'message is never handed over although the wrapped actor sent it' % what)
    ctx.check(ok, rule, 'sequencer-consistent', po,
              good='the sequencer sent on the wire keys the pending entry (same destination), and is '
                   'incremented after both',
              bad='process_output: the sequencer/destination put on the wire and the one recorded in '
                  'msgs_pending_ack differ, or next_send_seq is incremented between them: an Ack then '
                  'retires the wrong message')
    # ... and nowhere else: the sequencer only grows (a sequencer handed out twice makes the receiver, which
    # remembers the last one it delivered per sender, drop the second message as a duplicate - while the sender
    # sees it acknowledged)
    elsewhere = []
    for x in F.bodies.values():
        if 'ordered_reliable_link' not in x.path or x.path in spliced:
            continue
        for (i, st_) in stores_to_field(x, 'next_send_seq'):
            if x is po and cell is not None and i == cell[2]:
                continue        # the write-back of the local the sequencer was kept in during the loop
            if not (x is po and i in incs):
                elsewhere.append('%s@%s' % (x.path.split('::')[-1], st_.get('span', i)))
    ctx.check(len(incs) == 1 and not elsewhere, rule, 'sequencer-only-grows', po,
              good='next_send_seq is written only by the increment that follows a send',
              bad='the link writes next_send_seq outside the increment after a send (%s): a sequencer can be handed '
                  'out twice, and the receiver acknowledges the second message as a duplicate without handing it over'
                  % sorted(set(elsewhere)))
    if len(incs) == 1:
        # (anywhere in the Send arm: a helper may return the sequencer it has just advanced past)
        r = po.reach(send_edges if snd else [], cut_blocks=incs)
        loop_heads = [c.bb for c in po.calls_to('Iterator::next')]
        ctx.check(not any(h in r for h in loop_heads) and not any(x in r for x in po.returns), rule,
                  'sequencer-incremented-per-send', po,
                  good='next_send_seq is incremented after every send',
                  bad='process_output can handle a Send without incrementing next_send_seq: two messages '
                      'share a sequencer')


def r2_ack_implies_handover(ctx, F):
    rule = 'C16-R2'
    om = F.body(ON_MSG)
    swm = msg_switch(om, 5)
    edges = swm.edges_for('Deliver')
    blocks = om.reach([e[1] for e in edges])
    acks = [c for c in om.calls if c.bb in blocks and c.is_('Out::send') and
            om.val(c.args[2]).kind == 'agg' and om.val(c.args[2]).key[2] == 'Ack']
    inner = [c for c in om.calls if c.bb in blocks and c.callee == 'actor::Actor::on_msg']
    if len(acks) != 1 or len(inner) != 1:
        raise AnchorMissing('on_msg Deliver arm: Ack send (%d) / wrapped on_msg (%d)' % (len(acks), len(inner)))
    seq = V('arg', 5, ('as Deliver', '.0'))
    # the "already handed over" edge: comparison of the incoming seq with the stored last seq
    already = []
    cmp_sw = []
    for sw in om.switches:
        on = sw.on
        if sw.bb in blocks and on.kind == 'bin' and on.key[0] in ('Le', 'Lt', 'Ge', 'Gt', 'Eq', 'Ne'):
            ops = [noref(o) for o in on.key[1:]]
            if any(o == seq for o in ops):
                cmp_sw.append(sw)
                if on.key[0] in ('Le', 'Lt') and ops[0] == seq:
                    already += sw.edges_for(True)
                elif on.key[0] in ('Ge', 'Gt') and ops[1] == seq:
                    already += sw.edges_for(True)
    r = om.reach([acks[0].target], cut_edges=already, cut_blocks=[inner[0].bb])
    ctx.check(bool(already) and not any(x in r for x in om.returns), rule, 'ack-only-if-handed-over', om,
              good='an acknowledged Deliver was either handed over earlier (seq <= last) or is handed to the '
                   'wrapped actor now',
              bad='ActorWrapper::on_msg can acknowledge a Deliver and return without the message having been '
                  'handed over (neither the seq<=last edge nor the wrapped on_msg is on the path): the '
                  'sender discards a message the receiver never saw')
    # the ack carries the incoming seq and goes to the sender
    av = om.val(acks[0].args[2])
    ok = noref(av.key[3][0]) == seq and noref(om.val(acks[0].args[1])) == V('arg', 4)
    ctx.check(ok, rule, 'ack-names-incoming-seq', om,
              good='Ack(seq) is sent back to src with the incoming sequencer',
              bad='ActorWrapper::on_msg acknowledges %r to %r' % (av, om.val(acks[0].args[1])))
    # hand-over is recorded under (src -> seq) after the wrapped actor accepted it
    rec = [c for c in om.calls if c.bb in blocks and c.is_('HashMap::insert', 'HashableHashMap::insert') and
           field_of_receiver(om, c) == '.last_delivered_seqs']
    ok = len(rec) == 1 and noref(om.val(rec[0].args[1])) == V('arg', 4) and noref(om.val(rec[0].args[2])) == seq \
        and om.dominates(inner[0].bb, rec[0].bb)
    ctx.check(ok, rule, 'handover-recorded', om,
              good='last_delivered_seqs[src] = seq is recorded after the wrapped actor accepted the message',
              bad='ActorWrapper::on_msg does not record (src -> incoming seq) in last_delivered_seqs after '
                  'the hand-over: the same message is handed over again on redelivery')
    return cmp_sw, inner[0], blocks, seq


def r3_gap_blind(ctx, F, cmp_sw, inner, blocks, seq):
    rule = 'C16-R3'
    om = F.body(ON_MSG)
    before = [sw for sw in cmp_sw if om.dominates(sw.bb, inner.bb)]
    only_order = bool(before) and all(sw.on.key[0] in ('Le', 'Lt', 'Ge', 'Gt') for sw in before)
    # a receive-side buffer: the incoming message is stored into the link state before/without hand-over
    msgv = V('arg', 5, ('as Deliver', '.1'))
    buffered = False
    for c in om.calls:
        if c.bb in blocks and c.is_('HashMap::insert', 'BTreeMap::insert', 'Vec::push', 'VecDeque::push_back',
                                    'HashableHashMap::insert'):
            if any(noref(om.val(a)) == msgv for a in c.args if a['k'] in ('move', 'copy')):
                buffered = True
    ctx.check(not (only_order and not buffered), rule, 'hand-over-sees-gaps', om,
              good='the hand-over decision distinguishes last+1 from later sequencers (or early arrivals are '
                   'buffered)',
              bad='ActorWrapper::on_msg decides the hand-over only by an order comparison of the incoming '
                  'sequencer with the last handed-over one and keeps no receive buffer: an early arrival '
                  '(seq = last+2) is handed over, after which its predecessor (last+1) is acknowledged and '
                  'skipped - the handed-over sequence is no longer a prefix of the sent one')


def r1_rebuild_keeps_bookkeeping(ctx, F, rule='C16-R1'):
    """The link's state is sometimes rebuilt as a whole (when the wrapped actor replaced its state). A rebuild in
    a handler carries the three bookkeeping fields over from the current state; only on_start starts them fresh.
    A rebuild that takes `msgs_pending_ack` from a fresh value forgets what still awaits an ack: it is never resent."""
    from taint import origin_vals
    SW = 'actor::ordered_reliable_link::StateWrapper'
    keep = ('next_send_seq', 'msgs_pending_ack', 'last_delivered_seqs')
    n = 0
    for path in (ON_MSG, ON_TIMEOUT):
        b = F.body(path)
        def consumed_whole(l, depth=0):
            """local l is used as a value of its own (put into another aggregate, passed to a call, stored through a
            reference) - possibly after being moved through other locals - and not only taken apart field by field"""
            if depth > 6:
                return False
            for bl in b.blocks:
                for st_ in bl['stmts']:
                    if st_['k'] != 'assign':
                        continue
                    rv_ = st_['rv']
                    ops_ = rv_.get('ops', []) if rv_['k'] == 'agg' else []
                    if any(o_.get('k') in ('copy', 'move') and o_['place']['l'] == l and not o_['place']['p'] for o_ in ops_):
                        return True
                    if rv_['k'] in ('use', 'cast') and rv_['op'].get('k') in ('copy', 'move') and \
                            rv_['op']['place']['l'] == l and not rv_['op']['place']['p']:
                        if st_['lhs']['p']:
                            return True
                        if consumed_whole(st_['lhs']['l'], depth + 1):
                            return True
                t_ = bl['term']
                if t_['k'] == 'call' and any(o_.get('k') in ('copy', 'move') and o_['place']['l'] == l and
                                             not o_['place']['p'] for o_ in t_['args']):
                    return True
            return False
        whole_uses = None
        for (i, si, st) in b.assigns(lambda st: st['rv']['k'] == 'agg' and st['rv'].get('adt') == SW):
            if st['lhs']['p'] or not consumed_whole(st['lhs']['l']):
                continue      # a temporary that is only taken apart again (`..StateWrapper::new(x)`)
            n += 1
            fields = dict(zip(st['rv']['fields'], st['rv']['ops']))
            for f in keep:
                op = fields.get(f)
                ok = False
                if op is not None and op.get('k') in ('copy', 'move'):
                    vs = origin_vals(b, op)
                    ok = bool(vs)
                    for v in vs:
                        v = noref(b.trace(noref(v), ('Clone::clone', 'Deref::deref', 'DerefMut::deref_mut', 'Cow::to_mut')))
                        # the current state is parameter 3 (`state: &mut Cow<StateWrapper>`)
                        if not (v.kind == 'arg' and v.key == 3 and v.fields()[-1:] == ('.' + f,)):
                            ok = False
                ctx.check(ok, rule, 'rebuild-keeps-%s@%s' % (f, path.split('::')[-1]), b,
                          good='a rebuilt link state takes `%s` from the current state' % f,
                          bad='%s rebuilds the link state with `%s` not taken from the current state (a fresh / default '
                              'value): %s' % (path.split('::')[-1].join(['ActorWrapper::', '']), f,
                                              'messages still awaiting an ack are forgotten and never resent'
                                              if f == 'msgs_pending_ack' else
                                              'sequencers restart / delivered messages are handed over again'),
                          span=st.get('span'))
    return n


def run(ctx):
    F = ctx.facts
    ctx.doc('C16-R1', 'timer re-armed and every pending entry resent; msgs_pending_ack mutated only by insert '
                      '(process_output) and remove(&acked seq) (Ack arm); wire sequencer == pending key, '
                      'incremented after both')
    ctx.doc('C16-R2', 'cutting the seq<=last edge and the wrapped on_msg makes return unreachable after the Ack '
                      'send; Ack names the incoming seq; hand-over recorded as last_delivered_seqs[src]=seq')
    ctx.doc('C16-R3', 'information-flow on the sequencer: if every branch before the hand-over is an order '
                      'comparison against the stored last sequencer and nothing is buffered, gaps are invisible')
    with ctx.rule('C16-R1', 'orl'):
        r1_retransmission(ctx, F)
        r1_rebuild_keeps_bookkeeping(ctx, F)
    with ctx.rule('C16-R2', 'orl'):
        res = r2_ack_implies_handover(ctx, F)
        with ctx.rule('C16-R3', 'orl'):
            r3_gap_blind(ctx, F, *res)
