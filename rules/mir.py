"""Fact loading + generic MIR analyses (A1..A10 of DESIGN.md section 3).

Everything here is purely static: it reads the JSON produced by engine/srfacts and answers graph
questions (dominance, cut-reachability, edge labels, def-use provenance).  No rule logic lives here.
"""
import json
import os
import re
import sys
from collections import defaultdict, deque

sys.setrecursionlimit(10000)


class AnchorMissing(Exception):
    """A role could not be resolved in the current tree: the check fails closed."""


# ------------------------------------------------------------------------------------------------
# path normalisation
# ------------------------------------------------------------------------------------------------
_short_cache = {}


def short(path):
    """Strip generic argument lists: `std::vec::Vec::<T, A>::push` -> `std::vec::Vec::push`,
    `<std::vec::Vec<T, A> as std::ops::Deref>::deref` -> `<std::vec::Vec as std::ops::Deref>::deref`."""
    if path in _short_cache:
        return _short_cache[path]
    out = []
    i, n = 0, len(path)
    depth_skip = 0
    while i < n:
        c = path[i]
        if depth_skip:
            if c == '<':
                depth_skip += 1
            elif c == '>' and path[i - 1] != '-':
                depth_skip -= 1
            i += 1
            continue
        if c == '<':
            prev = path[i - 1] if i else ''
            prev2 = path[i - 2:i] if i >= 2 else ''
            if prev.isalnum() or prev == '_' or prev2 == '::':
                depth_skip = 1
                i += 1
                continue
        out.append(c)
        i += 1
    r = ''.join(out)
    while '::::' in r:
        r = r.replace('::::', '::')
    if r.endswith('::'):
        r = r[:-2]
    _short_cache[path] = r
    return r


def name_matches(shortpath, pat):
    """`pat` matches when it is a `::`-aligned suffix of the short path, or (for `<X as T>::m`
    forms) when pat is 'Trait::m' and the path is a trait-qualified call of it."""
    if shortpath == pat:
        return True
    if shortpath.endswith('::' + pat):
        return True
    m = re.match(r'^<(.+) as (.+)>::(\w+)$', shortpath)
    if m:
        ty, tr, meth = m.groups()
        cand = tr + '::' + meth
        if cand == pat or cand.endswith('::' + pat):
            return True
        # allow 'Type::method' to match '<path::Type as Trait>::method'
        cand2 = ty + '::' + meth
        if cand2 == pat or cand2.endswith('::' + pat):
            return True
    return False


# ------------------------------------------------------------------------------------------------
# values (def-use provenance, A5)
# ------------------------------------------------------------------------------------------------
class V(object):
    """(kind, key, projs).  kind: arg|call|const|local|bin|un|agg|discr|other."""
    __slots__ = ('kind', 'key', 'projs')

    def __init__(self, kind, key, projs=()):
        self.kind = kind
        self.key = key
        self.projs = tuple(projs)

    def _t(self):
        return (self.kind, self.key, self.projs)

    def __eq__(self, o):
        return isinstance(o, V) and self._t() == o._t()

    def __ne__(self, o):
        return not self.__eq__(o)

    def __hash__(self):
        return hash(self._t())

    def with_proj(self, p):
        pr = list(self.projs)
        if pr and ((pr[-1] == 'ref' and p == 'deref') or (pr[-1] == 'deref' and p == 'ref')):
            pr.pop()
        else:
            pr.append(p)
        return V(self.kind, self.key, pr)

    def fields(self):
        """projection list without ref/deref/downcast noise"""
        return tuple(p for p in self.projs if p.startswith('.'))

    def __repr__(self):
        return '%s:%s%s' % (self.kind, self.key, ''.join('[%s]' % p for p in self.projs))


def proj_str(e):
    if e == 'deref':
        return 'deref'
    if isinstance(e, dict):
        if 'f' in e:
            return '.' + (e['name'] if e.get('name') else str(e['f']))
        if 'downcast' in e:
            return 'as ' + e['downcast']
        if 'index' in e:
            return '[]'
        if 'cindex' in e:
            return '[%d]' % e['cindex']
    return str(e)


class Call:
    __slots__ = ('body', 'bb', 't', 'callee', 'decl', 'full', 'short', 'dshort', 'args', 'dest',
                 'target', 'unwind', 'span', 'exp', 'fnptr', 'targs', 'trait', 'local')

    def __init__(self, body, bb, t):
        self.body, self.bb, self.t = body, bb, t
        self.callee = t.get('callee', '')
        self.decl = t.get('decl', '')
        self.full = t.get('full', '')
        self.short = short(self.callee)
        self.dshort = short(self.decl) if self.decl else ''
        self.args = t['args']
        self.dest = t['dest']
        self.target = t['target']
        self.unwind = t['unwind']
        self.span = t['span']
        self.exp = t['exp']
        self.fnptr = t.get('fnptr')
        self.targs = t.get('targs', [])
        self.trait = t.get('trait')
        self.local = t.get('local', False)

    def is_(self, *pats):
        for p in pats:
            if name_matches(self.short, p) or (self.dshort and name_matches(self.dshort, p)):
                return True
        return False

    @property
    def indirect(self):
        return self.fnptr is not None

    def arg_val(self, i):
        return self.body.val(self.args[i])

    def where(self):
        return '%s bb%d (%s)' % (self.body.path, self.bb, self.span)

    def __repr__(self):
        return 'Call(%s @bb%d %s)' % (self.short or '<indirect>', self.bb, self.span.split('/')[-1])


class Switch:
    """A SwitchInt terminator with its out-edges labelled (A2)."""

    def __init__(self, body, bb, on, edges, kind, negated=False):
        self.body, self.bb, self.on, self.edges, self.kind = body, bb, on, edges, kind
        self.negated = negated

    def targets(self, label):
        """blocks entered when the switched value has `label` (variant name / True / False / int)."""
        return [t for (l, t) in self.edges if l == label or (isinstance(l, frozenset) and label in l)]

    def edges_for(self, label):
        return [(self.bb, t) for t in self.targets(label)]

    def edges_not(self, label):
        return [(self.bb, t) for (l, t) in self.edges
                if not (l == label or (isinstance(l, frozenset) and label in l))]

    def __repr__(self):
        return 'Switch(bb%d on %r %s)' % (self.bb, self.on, self.edges)


class Body:
    def __init__(self, facts, j):
        self.facts = facts
        self.j = j
        self.path = j['path']
        self.kind = j['kind']
        self.span = j['span']
        self.blocks = j['blocks']
        self.locals = j['locals']
        self.arg_count = j['arg_count']
        self.n = len(self.blocks)
        self._succ = None
        self._pred = None
        self._dom = None
        self._pdom = None
        self._defs = None
        self._calls = None
        self._valcache = {}
        self._switch = {}

    # ---------------- CFG (normal edges only) ----------------
    def _build(self):
        succ = [[] for _ in range(self.n)]
        for i, b in enumerate(self.blocks):
            if b['cleanup']:
                continue
            t = b['term']
            k = t['k']
            if k in ('goto', 'drop', 'assert'):
                succ[i] = [t['target']]
            elif k == 'switch':
                s = []
                for _, tb in t['targets']:
                    if tb not in s:
                        s.append(tb)
                if t['otherwise'] not in s:
                    s.append(t['otherwise'])
                succ[i] = s
            elif k == 'call':
                succ[i] = [t['target']] if t['target'] is not None else []
            else:
                succ[i] = []
        raw_succ = [list(x) for x in succ]
        # Jump threading for boolean/constant temporaries (`matches!`, `&&`, `||`, and the result
        # of a spliced helper function):
        #   X: ...; L = const k; goto I1     I1..In: only assignments to temporaries; goto
        #   Y: (assignments to temporaries) switch M   with M's value known to be a constant
        # All executions leaving X continue at Y's target for that constant, so X is redirected
        # there. This removes infeasible paths only. Blocks that assign user variables or contain
        # calls are never skipped.
        user = set()
        for d in self.j.get('debug', []):
            if not d['place']['p']:
                user.add(d['place']['l'])

        def step_env(env, stmts, allow_user):
            for st in stmts:
                if st['k'] != 'assign':
                    return None
                lhs = st['lhs']
                if lhs['p']:
                    continue
                rv = st['rv']
                if lhs['l'] in user and not allow_user:
                    # a block that sets a user variable is stepped over only when it merely hands a tracked
                    # value on (`let owned = <the Some(..) just built>`); stores of constants or computed values
                    # into user variables stay on the path
                    if not (rv['k'] == 'use' and rv['op']['k'] in ('copy', 'move') and not rv['op']['place']['p']
                            and rv['op']['place']['l'] in env):
                        return None
                if rv['k'] == 'use' and rv['op']['k'] == 'const' and 'val' in rv['op']:
                    env[lhs['l']] = rv['op']['val']
                elif rv['k'] == 'agg' and rv.get('agg') == 'adt' and rv.get('variant'):
                    # an enum value built in place: its discriminant is known
                    env[lhs['l']] = ('variant', rv['variant'])
                elif rv['k'] == 'discr' and not rv['place']['p'] and isinstance(env.get(rv['place']['l']), tuple):
                    name = env[rv['place']['l']][1]
                    dv = [v for v, n_ in rv.get('variants', []) if n_ == name]
                    if len(dv) == 1:
                        env[lhs['l']] = dv[0]
                    else:
                        env.pop(lhs['l'], None)
                elif rv['k'] == 'use' and rv['op']['k'] in ('copy', 'move') and not rv['op']['place']['p'] \
                        and rv['op']['place']['l'] in env:
                    env[lhs['l']] = env[rv['op']['place']['l']]
                else:
                    env.pop(lhs['l'], None)
            return env
        for x, bx in enumerate(self.blocks):
            if bx['cleanup'] or bx['term']['k'] not in ('goto', 'drop'):
                continue
            env = step_env({}, bx['stmts'], True)
            if not env:
                continue
            cur = bx['term']['target']

            def merge_of(bc_):
                """for a (drop-flag style) re-test whose arms re-join at once: the join block"""
                ts = []
                for _, tb in bc_['term']['targets']:
                    if tb not in ts:
                        ts.append(tb)
                if bc_['term']['otherwise'] not in ts:
                    ts.append(bc_['term']['otherwise'])
                ts = [t_ for t_ in ts if self.blocks[t_]['term']['k'] != 'unreachable']
                for cand in ts:
                    ok_all = True
                    for o in ts:
                        if o == cand:
                            continue
                        bo = self.blocks[o]
                        if bo['cleanup'] or bo['stmts'] or bo['term']['k'] not in ('goto', 'drop') or \
                                bo['term']['target'] != cand:
                            ok_all = False
                    if ok_all:
                        return cand
                return None
            for _ in range(8):
                bc = self.blocks[cur]
                if bc['cleanup']:
                    break
                k = bc['term']['k']
                if k in ('goto', 'drop'):
                    env = step_env(env, bc['stmts'], False)
                    if env is None or not env:
                        break
                    cur = bc['term']['target']
                    continue
                if k == 'switch':
                    d0 = bc['term']['discr']
                    if not (d0['k'] in ('copy', 'move') and not d0['place']['p'] and d0['place']['l'] in
                            (step_env(dict(env), bc['stmts'], False) or {})):
                        mg = merge_of(bc)
                        e2 = step_env(env, bc['stmts'], False)
                        if mg is not None and e2:
                            env = e2
                            cur = mg
                            continue
                        break
                    env = step_env(env, bc['stmts'], False)
                    if env is None:
                        break
                    d = bc['term']['discr']
                    if d['k'] in ('copy', 'move') and not d['place']['p'] and d['place']['l'] in env:
                        kv = env[d['place']['l']]
                        if isinstance(kv, tuple):
                            break
                        tgt = bc['term']['otherwise']
                        for val, tb in bc['term']['targets']:
                            if val == kv:
                                tgt = tb
                        succ[x] = [tgt]
                    break
                break
        pred = [[] for _ in range(self.n)]
        for i, ss in enumerate(succ):
            for s_ in ss:
                pred[s_].append(i)
        self._succ, self._pred = succ, pred
        # blocks that execute at all: jump threading skips assignment-only blocks, whose
        # definitions (the payload of a `Some(x)` handed through a join) still take effect
        seen = set([0])
        work = [0]
        while work:
            x = work.pop()
            for y in raw_succ[x]:
                if y not in seen:
                    seen.add(y)
                    work.append(y)
        self._rawlive = seen

    @property
    def succ(self):
        if self._succ is None:
            self._build()
        return self._succ

    @property
    def pred(self):
        if self._pred is None:
            self._build()
        return self._pred

    @property
    def returns(self):
        return [i for i, b in enumerate(self.blocks) if not b['cleanup'] and b['term']['k'] == 'return']

    def live_blocks(self):
        return self.reach([0])

    def reach(self, starts, cut_edges=(), cut_blocks=()):
        """Blocks reachable from `starts` (inclusive) along normal edges, never traversing an edge
        in cut_edges and never *entering* a block in cut_blocks."""
        cut_edges = set(cut_edges)
        cut_blocks = set(cut_blocks)
        seen = set()
        dq = deque()
        for s_ in starts:
            if s_ not in seen:
                seen.add(s_)
                dq.append(s_)
        while dq:
            b = dq.popleft()
            if b in cut_blocks:
                continue  # a start that is itself cut: the path ends here
            for t in self.succ[b]:
                if (b, t) in cut_edges or t in cut_blocks or t in seen:
                    continue
                seen.add(t)
                dq.append(t)
        return seen

    def reach_after(self, starts, cut_edges=(), cut_blocks=()):
        """Blocks reachable from the *successors* of `starts` (so a start block is only in the
        result if it lies on a cycle)."""
        cut_edges = set(cut_edges)
        cut_blocks = set(cut_blocks)
        first = []
        for s_ in starts:
            for t in self.succ[s_]:
                if (s_, t) not in cut_edges and t not in cut_blocks:
                    first.append(t)
        return self.reach(first, cut_edges, cut_blocks) if first else set()

    def reach_under(self, constraints, starts=(0,), cut_blocks=()):
        """Blocks reachable from `starts` when every switch listed in `constraints`
        ([(switch_list, label), ...]) may only take out-edges whose label is (or contains) the
        given label.  Exact path sensitivity for matches on values that do not change."""
        allowed = {}
        for sws, label in constraints:
            for sw in sws:
                ts = set(sw.targets(label))
                allowed[sw.bb] = allowed[sw.bb] & ts if sw.bb in allowed else ts
        cut_blocks = set(cut_blocks)

        def run():
            seen = set(starts)
            dq = deque(starts)
            while dq:
                b = dq.popleft()
                if b in cut_blocks:
                    continue
                for t in self.succ[b]:
                    if b in allowed and t not in allowed[b]:
                        continue
                    if t in seen or t in cut_blocks:
                        continue
                    seen.add(t)
                    dq.append(t)
            return seen
        seen = run()
        # a boolean local that only ever receives constants (`let unchanged = matches!(state, Borrowed(_))`)
        # and is tested later: under the constraints it may have just one value left
        flags = [sw for sw in self.switches if sw.kind == 'bool' and sw.on.kind == 'local' and not sw.on.projs]
        for _ in range(4):
            changed = False
            for sw in flags:
                if sw.bb not in seen:
                    continue
                l = sw.on.key
                stores = self.flag_stores(l)
                if not stores:
                    continue
                vals = set(bool(v) for (bb, v) in stores if bb in seen)
                if len(vals) == 1:
                    ts = set(sw.targets(next(iter(vals))))
                    new = allowed[sw.bb] & ts if sw.bb in allowed else ts
                    if allowed.get(sw.bb) != new:
                        allowed[sw.bb] = new
                        changed = True
            if not changed:
                break
            seen = run()
        return seen

    def backreach(self, targets, cut_edges=(), cut_blocks=()):
        cut_edges = set(cut_edges)
        cut_blocks = set(cut_blocks)
        seen = set(targets)
        dq = deque(targets)
        while dq:
            b = dq.popleft()
            for p in self.pred[b]:
                if (p, b) in cut_edges or p in cut_blocks or p in seen:
                    continue
                seen.add(p)
                dq.append(p)
        return seen

    def _domtree(self, succ, pred, roots):
        # iterative dominators (Cooper-Harvey-Kennedy) on the given graph from a virtual root
        order = []
        seen = set()
        VR = -1
        s2 = dict((i, succ[i]) for i in range(self.n))
        s2[VR] = list(roots)
        stack = [(VR, iter(s2[VR]))]
        seen.add(VR)
        while stack:
            node, it = stack[-1]
            adv = False
            for t in it:
                if t not in seen:
                    seen.add(t)
                    stack.append((t, iter(s2[t])))
                    adv = True
                    break
            if not adv:
                order.append(node)
                stack.pop()
        rpo = list(reversed(order))
        idx = dict((b, i) for i, b in enumerate(rpo))
        p2 = defaultdict(list)
        for b in rpo:
            for t in s2[b]:
                p2[t].append(b)
        idom = {VR: VR}
        changed = True
        while changed:
            changed = False
            for b in rpo[1:]:
                ps = [p for p in p2[b] if p in idom]
                if not ps:
                    continue
                new = ps[0]
                for p in ps[1:]:
                    a, c = p, new
                    while a != c:
                        while idx[a] > idx[c]:
                            a = idom[a]
                        while idx[c] > idx[a]:
                            c = idom[c]
                    new = a
                if idom.get(b) != new:
                    idom[b] = new
                    changed = True
        return idom

    @property
    def idom(self):
        if self._dom is None:
            self._dom = self._domtree(self.succ, self.pred, [0])
        return self._dom

    @property
    def ipdom(self):
        if self._pdom is None:
            self._pdom = self._domtree(self.pred, self.succ, self.returns)
        return self._pdom

    def dominates(self, a, b):
        """every path entry->b passes a (a==b counts)"""
        idom = self.idom
        if b not in idom:
            return False
        x = b
        while True:
            if x == a:
                return True
            if x == -1 or idom[x] == x:
                return False
            x = idom[x]

    def postdominates(self, a, b):
        """every path b->return passes a"""
        ip = self.ipdom
        if b not in ip:
            return False
        x = b
        while True:
            if x == a:
                return True
            if x == -1 or ip[x] == x:
                return False
            x = ip[x]

    def edges_dominate(self, edges, block, frm=None):
        """every path from `frm` (default entry) to `block` crosses one of `edges`"""
        starts = [0] if frm is None else list(frm)
        return block not in self.reach(starts, cut_edges=edges)

    def in_cycle(self, b):
        return b in self.reach_after([b])

    # ---------------- calls ----------------
    @property
    def calls(self):
        if self._calls is None:
            live = self.live_blocks()
            self._calls = [Call(self, i, b['term']) for i, b in enumerate(self.blocks)
                           if b['term']['k'] == 'call' and not b['cleanup'] and i in live]
        return self._calls

    def calls_to(self, *pats, user_only=False):
        return [c for c in self.calls if c.is_(*pats) and not (user_only and c.exp)]

    def call_at(self, bb):
        for c in self.calls:
            if c.bb == bb:
                return c
        return None

    def one_call(self, *pats, what=None):
        cs = self.calls_to(*pats)
        if len(cs) != 1:
            raise AnchorMissing('%s: expected exactly one call to %s (%s), found %d' %
                                (self.path, pats, what or '', len(cs)))
        return cs[0]

    def indirect_calls(self):
        return [c for c in self.calls if c.indirect]

    # ---------------- definitions / values ----------------
    @property
    def defs(self):
        if self._defs is None:
            d = defaultdict(list)
            self.succ
            live = self._rawlive
            for i, b in enumerate(self.blocks):
                if b['cleanup'] or i not in live:
                    continue
                for si, st in enumerate(b['stmts']):
                    if st['k'] == 'assign':
                        d[st['lhs']['l']].append((i, si, st))
                t = b['term']
                if t['k'] == 'call':
                    d[t['dest']['l']].append((i, 'call', t))
            self._defs = d
        return self._defs

    def place_val(self, place, depth=0):
        v = self.local_val(place['l'], depth)
        for e in place['p']:
            v = v.with_proj(proj_str(e))
        if v.kind == 'agg' and v.projs:
            # a component of a value that was just put together: `(a, b).0` is `a`
            v2 = self._agg_component(v)
            if v2 is not None:
                return v2
        return v

    def _agg_component(self, v):
        projs = [p for p in v.projs]
        # look through reference noise in front of the field selection
        i = 0
        while i < len(projs) and projs[i] in ('ref', 'deref'):
            i += 1
        if i >= len(projs):
            return None
        kind, name, variant, ops = v.key
        p = projs[i]
        rest = projs[i + 1:]
        if p.startswith('as '):
            if kind == 'adt' and variant and p[3:] != variant:
                return None
            if not rest or not (rest[0].startswith('.') and rest[0][1:].isdigit()):
                return None
            p, rest = rest[0], rest[1:]
        if p.startswith('.') and p[1:].isdigit() and int(p[1:]) < len(ops) and kind in ('tuple', 'adt', 'closure'):
            nv = ops[int(p[1:])]
            for q in rest:
                nv = nv.with_proj(q)
            if nv.kind == 'agg' and nv.projs:
                return self._agg_component(nv) or nv
            return nv
        return None

    def val(self, operand, depth=0):
        k = operand['k']
        if k == 'const':
            if 'fn' in operand:
                return V('const', 'fn:' + operand.get('fn_resolved', operand['fn']))
            if 'promoted' in operand:
                return V('const', 'promoted:%d' % operand['promoted'])
            if 'val' in operand:
                return V('const', operand['val'])
            return V('const', 'dbg:' + operand.get('dbg', ''))
        if k in ('copy', 'move'):
            return self.place_val(operand['place'], depth)
        return V('other', k)

    def _mut_borrowed_and_stored(self):
        """locals of which a `&mut` is taken through which something is stored (`*r = v` with r = &mut l)"""
        if getattr(self, '_mbs', None) is None:
            refs = {}
            for i, bl in enumerate(self.blocks):
                for st in bl['stmts']:
                    if st['k'] == 'assign' and st['rv']['k'] == 'ref' and st['rv'].get('mut') and \
                            not st['rv']['place']['p'] and not st['lhs']['p']:
                        refs.setdefault(st['lhs']['l'], set()).add(st['rv']['place']['l'])
            # references handed on by a plain copy (`r2 = move r1`, as when a closure's captures are substituted)
            for _ in range(6):
                grew = False
                for i, bl in enumerate(self.blocks):
                    for st in bl['stmts']:
                        if st['k'] == 'assign' and not st['lhs']['p'] and st['rv']['k'] in ('use', 'cast') and \
                                st['rv']['op'].get('k') in ('copy', 'move') and not st['rv']['op']['place']['p'] and \
                                st['rv']['op']['place']['l'] in refs:
                            cur = refs.setdefault(st['lhs']['l'], set())
                            add = refs[st['rv']['op']['place']['l']] - cur
                            if add:
                                cur |= add
                                grew = True
                if not grew:
                    break
            out = set()
            for i, bl in enumerate(self.blocks):
                for st in bl['stmts']:
                    if st['k'] == 'assign' and st['lhs']['p'] == ['deref'] and st['lhs']['l'] in refs:
                        out |= refs[st['lhs']['l']]
            self._mbs = out
            self._mut_refs = refs
        return self._mbs

    def flag_stores(self, l):
        """(block, value) of every store of a constant to bool local l - directly or through a `&mut l`; None when
        something that is not a constant is stored (then l is not a constant flag)"""
        self._mut_borrowed_and_stored()
        out = []
        for (i, si, st) in self.defs.get(l, []):
            if si == 'call':
                return None
            if st['lhs']['p']:
                continue
            rv = st['rv']
            if rv['k'] == 'use' and rv['op']['k'] == 'const' and 'val' in rv['op']:
                out.append((i, rv['op']['val']))
            else:
                return None
        for i, bl in enumerate(self.blocks):
            if bl['cleanup']:
                continue
            for st in bl['stmts']:
                if st['k'] == 'assign' and st['lhs']['p'] == ['deref'] and l in self._mut_refs.get(st['lhs']['l'], ()):
                    rv = st['rv']
                    if rv['k'] == 'use' and rv['op']['k'] == 'const' and 'val' in rv['op']:
                        out.append((i, rv['op']['val']))
                    else:
                        return None
        return out

    def local_val(self, l, depth=0):
        if l in self._valcache:
            return self._valcache[l]
        if depth > 60:
            return V('local', l)
        if 1 <= l <= self.arg_count:
            # arguments may be re-assigned, but treat as arg if no whole-local defs
            if not any(st for st in self.defs.get(l, []) if st[1] == 'call' or not st[2]['lhs']['p']):
                v = V('arg', l)
                self._valcache[l] = v
                return v
        whole = [d for d in self.defs.get(l, []) if d[1] == 'call' or not d[2]['lhs']['p']]
        if 1 <= l <= self.arg_count:
            # a re-assigned parameter has (at least) two definitions: the caller's and the store
            v = V('local', l)
            self._valcache[l] = v
            return v
        if d_is_call_only(whole):
            bb = whole[0][0]
            if not whole[0][2]['dest']['p']:
                v = V('call', bb)
                self._valcache[l] = v
                return v
        if len(whole) != 1 or whole[0][1] == 'call':
            v = V('local', l)
            self._valcache[l] = v
            return v
        self._valcache[l] = V('local', l)  # cycle guard
        st = whole[0][2]
        rv = st['rv']
        k = rv['k']
        if k == 'use' and rv['op'].get('k') == 'const' and l in self._mut_borrowed_and_stored():
            # `let mut flag = false; .. *(&mut flag) = true ..` (a flag set by a closure that captured it): the one
            # whole definition is not the only value
            return self._valcache[l]
        if k == 'use':
            v = self.val(rv['op'], depth + 1)
        elif k == 'ref' or k == 'rawptr':
            v = self.place_val(rv['place'], depth + 1).with_proj('ref')
        elif k == 'cast':
            v = self.val(rv['op'], depth + 1)
        elif k == 'discr':
            v = V('discr', self.place_val(rv['place'], depth + 1))
        elif k == 'bin':
            v = V('bin', (rv['op'], self.val(rv['a'], depth + 1), self.val(rv['b'], depth + 1)))
        elif k == 'un':
            v = V('un', (rv['op'], self.val(rv['a'], depth + 1)))
        elif k == 'agg':
            name = rv.get('adt') or rv.get('closure') or rv['agg']
            v = V('agg', (rv['agg'], name, rv.get('variant', ''),
                          tuple(self.val(o, depth + 1) for o in rv['ops'])))
        else:
            v = V('local', l)
        self._valcache[l] = v
        return v

    def trace(self, v, through=(), maxd=40):
        """Follow a value through calls named in `through` (continuing with argument 0)."""
        d = 0
        while v.kind == 'call' and d < maxd:
            c = self.call_at(v.key)
            if c is None or not c.is_(*through) or not c.args:
                break
            nv = self.val(c.args[0])
            for p in v.projs:
                nv = nv.with_proj(p)
            v = nv
            d += 1
        return v

    def trace_chain(self, v, chain):
        """Follow v through exactly the given sequence of calls (argument 0 each time);
        returns None when a step does not match."""
        for pat in chain:
            if v.kind != 'call':
                return None
            c = self.call_at(v.key)
            if c is None or not c.is_(*([pat] if isinstance(pat, str) else pat)) or not c.args:
                return None
            nv = self.val(c.args[0])
            for p in v.projs:
                nv = nv.with_proj(p)
            v = nv
        return v

    def agg_field(self, v):
        """If v is a projection `.i` of an aggregate (tuple/adt), return the i-th operand value."""
        while v.kind == 'agg' and v.projs:
            kind, name, variant, ops = v.key
            p = v.projs[0]
            rest = v.projs[1:]
            if p.startswith('as '):
                v = V('agg', v.key, rest)
                continue
            if p.startswith('.') and p[1:].isdigit() and int(p[1:]) < len(ops):
                nv = ops[int(p[1:])]
                for q in rest:
                    nv = nv.with_proj(q)
                v = nv
                continue
            break
        return v

    # ---------------- switches / edge labels (A2) ----------------
    def switch_at(self, bb):
        if bb in self._switch:
            return self._switch[bb]
        t = self.blocks[bb]['term']
        if t['k'] != 'switch':
            self._switch[bb] = None
            return None
        d = t['discr']
        on = self.val(d)
        negated = False
        # look through `Not`
        while on.kind == 'un' and on.key[0] == 'Not':
            on = on.key[1]
            negated = not negated
        edges = []
        if on.kind == 'discr':
            # find the variants table on the defining statement
            variants = None
            dplace = None
            for (bi, si, st) in self.defs.get(d['place']['l'], []) if d['k'] != 'const' else []:
                if si != 'call' and st['rv']['k'] == 'discr':
                    variants = st['rv'].get('variants')
                    dplace = st['rv']['place']
            if on.key.kind == 'local' and on.key.projs and dplace is not None:
                # a part of a value that was put together on several paths (`Some(f(x))` / `None` handed
                # through a join and taken apart again): resolve it when every path that can supply this
                # part supplies the same value
                try:
                    from taint import origin_vals
                    vs = origin_vals(self, {'k': 'copy', 'place': dplace})
                    if len(vs) == 1 and next(iter(vs)).kind != 'local':
                        on = V('discr', next(iter(vs)))
                except RecursionError:
                    pass
            names = {}
            if variants:
                names = dict((v_[0], v_[1]) for v_ in variants)
            used = set()
            for val, tb in t['targets']:
                lab = names.get(val, val)
                used.add(lab)
                edges.append((lab, tb))
            rest = frozenset(n_ for n_ in names.values() if n_ not in used)
            edges.append((rest if len(rest) != 1 else next(iter(rest)), t['otherwise']))
            sw = Switch(self, bb, on.key, edges, 'variant')
        else:
            dty = None
            if d['k'] in ('copy', 'move') and not d['place']['p']:
                dty = self.locals[d['place']['l']]['ty']
            elif d['k'] in ('copy', 'move') and isinstance(d['place']['p'][-1], dict) and d['place']['p'][-1].get('ty'):
                # a component of a matched tuple / struct (`match (kind, holds) { (A, true) => .. }`)
                dty = d['place']['p'][-1]['ty']
            if dty is None or dty == '_':
                # the tested value itself may say so: the result of a comparison / negation, or a bool-typed local
                o_ = on
                if o_.kind in ('bin',) and o_.key[0] in ('Eq', 'Ne', 'Lt', 'Le', 'Gt', 'Ge'):
                    dty = 'bool'
                elif o_.kind == 'call' and not o_.projs and self.call_at(o_.key) is not None and \
                        not self.call_at(o_.key).t['dest']['p'] and \
                        self.locals[self.call_at(o_.key).t['dest']['l']]['ty'] == 'bool' and \
                        set(v_ for v_, _ in t['targets']) <= {0, 1}:
                    dty = 'bool'
            if dty == 'bool':
                for val, tb in t['targets']:
                    lab = bool(val)
                    edges.append((lab != negated, tb))
                # otherwise = the other boolean
                vals = set(bool(v_) for v_, _ in t['targets'])
                other = (not next(iter(vals))) if len(vals) == 1 else True
                edges.append((other != negated, t['otherwise']))
                sw = Switch(self, bb, on, edges, 'bool', negated)
            else:
                for val, tb in t['targets']:
                    edges.append((val, tb))
                edges.append(('otherwise', t['otherwise']))
                sw = Switch(self, bb, on, edges, 'int')
        self._switch[bb] = sw
        return sw

    @property
    def switches(self):
        live = self.live_blocks()
        r = []
        for i, b in enumerate(self.blocks):
            if not b['cleanup'] and i in live and b['term']['k'] == 'switch':
                r.append(self.switch_at(i))
        return r

    def switches_on_call(self, call, through=()):
        """Switches whose discriminant is (a projection-free view of) the result of `call`."""
        r = []
        for sw in self.switches:
            on = sw.on
            on2 = self.trace(on, through) if through else on
            if on2.kind == 'call' and on2.key == call.bb:
                r.append(sw)
            elif on2.kind == 'local':
                # a user variable assigned on several paths, each time directly by a call
                ds = self.defs.get(on2.key, [])
                if ds and all(d[1] == 'call' and not d[2]['dest']['p'] for d in ds) and \
                        any(d[0] == call.bb for d in ds):
                    r.append(sw)
        return r

    def branch(self, call, label, through=(), projs=None, primary=True):
        """Edges taken when `call`'s result has `label`; requires a switch directly on the result
        (projs None => any projection list that has no field component).  primary: ignore
        re-tests of the same value that are dominated by an earlier test (drop-flag style)."""
        out = []
        sws = self.switches_on_call(call, through)
        if primary:
            sws = [s_ for s_ in sws
                   if not any(o is not s_ and self.dominates(o.bb, s_.bb) for o in sws)]
        for sw in sws:
            if projs is None and any(p.startswith('.') for p in sw.on.projs):
                continue
            if projs is not None and tuple(sw.on.projs) != tuple(projs):
                continue
            out.extend(sw.edges_for(label))
        return out

    # ---------------- statements ----------------
    def assigns(self, pred=None):
        live = self.live_blocks()
        for i, b in enumerate(self.blocks):
            if b['cleanup'] or i not in live:
                continue
            for si, st in enumerate(b['stmts']):
                if st['k'] == 'assign' and (pred is None or pred(st)):
                    yield (i, si, st)

    def const_stores(self, local):
        """(bb, si, value) for `local = const v` statements"""
        r = []
        for (i, si, st) in self.defs.get(local, []):
            if si == 'call':
                continue
            rv = st['rv']
            if not st['lhs']['p'] and rv['k'] == 'use' and rv['op']['k'] == 'const' and 'val' in rv['op']:
                r.append((i, si, rv['op']['val']))
        return r

    def arg_by_type(self, pred, what):
        hits = [i for i in range(1, self.arg_count + 1) if pred(self.locals[i]['ty'])]
        if len(hits) != 1:
            raise AnchorMissing('%s: expected exactly one parameter for role %s, found %d' %
                                (self.path, what, len(hits)))
        return hits[0]

    def debug_name(self, local):
        for d in self.j['debug']:
            if d['place']['l'] == local and not d['place']['p']:
                return d['name']
        return '_%d' % local

    def upvar_names(self):
        """closure env field index -> source name (reports only)"""
        r = {}
        for d in self.j['debug']:
            p = d['place']
            if p['l'] == 1:
                for e in p['p']:
                    if isinstance(e, dict) and 'f' in e:
                        r[e['f']] = d['name']
                        break
        return r


def d_is_call_only(whole):
    return len(whole) == 1 and whole[0][1] == 'call'


# ------------------------------------------------------------------------------------------------
def _bump(x, loff):
    """renumber every local mentioned in a JSON fragment (places and index projections)"""
    if isinstance(x, dict):
        if 'l' in x and 'p' in x and isinstance(x.get('p'), list):
            np_ = []
            for e in x['p']:
                if isinstance(e, dict) and 'index' in e:
                    e = dict(e, index=e['index'] + loff)
                np_.append(e)
            return dict(x, l=x['l'] + loff, p=np_)
        return dict((k, _bump(v, loff)) for k, v in x.items())
    if isinstance(x, list):
        return [_bump(v, loff) for v in x]
    return x


def inline_new_callees(raw, j, unknown, depth=0, stack=()):
    """Splice the bodies of local functions that did not exist in the reference tree (helpers a
    refactoring introduced) into their callers, so path rules keep seeing one control-flow graph.
    Works on the JSON facts; returns a new body JSON (or the original when nothing was inlined)."""
    if depth > 3:
        return j
    todo = [i for i, b in enumerate(j['blocks'])
            if b['term']['k'] == 'call' and b['term'].get('local') and b['term'].get('callee') in unknown
            and b['term']['callee'] in raw and b['term']['callee'] not in stack and b['term']['callee'] != j['path']
            and raw[b['term']['callee']]['kind'] != 'Closure' and not b['cleanup']]
    if not todo:
        return j
    blocks = [dict(b) for b in j['blocks']]
    locals_ = list(j['locals'])
    promoted = list(j.get('promoted', []))
    for bi in todo:
        t = blocks[bi]['term']
        g = inline_new_callees(raw, raw[t['callee']], unknown, depth + 1, stack + (j['path'],))
        loff, boff, poff = len(locals_), len(blocks), len(promoted)
        locals_ += g['locals']
        promoted += g.get('promoted', [])
        for gb in g['blocks']:
            nb = _bump({'stmts': gb['stmts'], 'term': gb['term']}, loff)
            nb['cleanup'] = gb['cleanup']
            # promoted constants of the callee
            def fixp(x):
                if isinstance(x, dict):
                    if x.get('k') == 'const' and 'promoted' in x:
                        return dict(x, promoted=x['promoted'] + poff)
                    return dict((k, fixp(v)) for k, v in x.items())
                if isinstance(x, list):
                    return [fixp(v) for v in x]
                return x
            nb = fixp(nb)
            tt = dict(nb['term'])
            k = tt['k']
            if k in ('goto', 'drop', 'assert'):
                tt['target'] += boff
            if k == 'call' and tt.get('target') is not None:
                tt['target'] += boff
            if k == 'switch':
                tt['targets'] = [[v, tb + boff] for v, tb in tt['targets']]
                tt['otherwise'] += boff
            if isinstance(tt.get('unwind'), int):
                tt['unwind'] += boff
            if k == 'return':
                st = {'k': 'assign', 'lhs': t['dest'],
                      'rv': {'k': 'use', 'op': {'k': 'move', 'place': {'l': loff, 'p': []}}},
                      'span': t['span'], 'exp': False}
                nb['stmts'] = nb['stmts'] + [st]
                tt = {'k': 'goto', 'target': t['target'], 'span': t['span'], 'exp': False} \
                    if t['target'] is not None else {'k': 'unreachable', 'span': t['span'], 'exp': False}
            nb['term'] = tt
            blocks.append(nb)
        # the call block: bind the parameters, jump to the callee's entry
        binds = []
        for ai, a in enumerate(t['args']):
            binds.append({'k': 'assign', 'lhs': {'l': loff + 1 + ai, 'p': []}, 'rv': {'k': 'use', 'op': a},
                          'span': t['span'], 'exp': False})
        blocks[bi] = dict(blocks[bi], stmts=blocks[bi]['stmts'] + binds,
                          term={'k': 'goto', 'target': boff, 'span': t['span'], 'exp': False})
    nj = dict(j, blocks=blocks, locals=locals_, promoted=promoted)
    nj['inlined'] = sorted(set(j['blocks'][bi]['term']['callee'] for bi in todo))
    return nj


class Facts:
    def __init__(self, path):
        with open(path) as f:
            self.j = json.load(f)
        self.path = path
        self.bodies = {}
        raw = dict((b['path'], b) for b in self.j['bodies'])
        unknown = set()
        kf = os.path.join(os.path.dirname(os.path.abspath(__file__)), 'known_functions.json')
        self.renamed = {}
        if os.path.exists(kf):
            kj = json.load(open(kf))
            known = set(kj)
            unknown = set(p for p, b in raw.items() if b['kind'] != 'Closure' and p not in known)
            # a function that merely changed its name is not a new helper: match unknown functions
            # against known ones that disappeared (same enclosing item, same arity, same callees)
            missing = [k for k in known if k not in raw]
            if isinstance(kj, dict) and missing and unknown:
                def parent(p_):
                    return p_.rsplit('::', 1)[0]
                for u in sorted(unknown):
                    bu = raw[u]
                    cu = set(bl['term'].get('callee', '') for bl in bu['blocks']
                             if bl['term']['k'] == 'call' and not bl['cleanup'])
                    best = None
                    for k in missing:
                        if parent(k) != parent(u) or kj[k][0] != bu['arg_count']:
                            continue
                        ck = set(kj[k][1])
                        # callee names may themselves have been renamed: compare ignoring local unknowns
                        inter = len(cu & ck)
                        union = len(cu | ck) or 1
                        score = inter / union
                        if score >= 0.7 and (best is None or score > best[0]):
                            best = (score, k)
                    if best:
                        self.renamed[u] = best[1]
                unknown -= set(self.renamed)
        self.unknown_functions = unknown
        self.inlined = {}
        self.desugared = {}
        self._raw = raw
        self._norm = {}
        kc = os.path.join(os.path.dirname(os.path.abspath(__file__)), 'known_closures.json')
        self.known_closures = json.load(open(kc)) if os.path.exists(kc) else None
        import desugar

        def is_new(cpath, kind, j):
            # a closure is new when the reference tree had no closure handed to this combinator in
            # the same top-level function
            if self.known_closures is None:
                return False
            # (the function it is spliced into counts: a closure that moved into a new helper
            # together with its loop is still the reference closure)
            if cpath.startswith('extern:'):
                root = j.get('root') or j['path']
                root = self.renamed.get(root, root)
                return kind not in self.known_closures.get(root, [])
            if raw[cpath]['kind'] != 'Closure':
                return cpath in unknown      # a new helper function handed over as the callable
            root = j.get('root') or j['path']
            root = self.renamed.get(root, root)
            return kind not in self.known_closures.get(root, [])
        inl = {}
        for b in self.j['bodies']:
            jb = inline_new_callees(raw, b, unknown) if unknown else b
            if jb is not b:
                self.inlined[b['path']] = jb['inlined']
            inl[b['path']] = jb
        self._inl = inl
        self._adt_paths = dict((a['path'], [v['name'] for v in a['variants']]) for a in self.j['adts'])
        ds = desugar.Desugarer(inl, is_new, self._adt_paths)
        for b in self.j['bodies']:
            jb = inl[b['path']]
            jd = ds.run(jb)
            if jd is not jb:
                self.desugared[b['path']] = jd['desugared']
            jd = desugar.split_switch_operands(jd)
            self.bodies[b['path']] = Body(self, jd)
        self.adts = dict((a['path'], a) for a in self.j['adts'])
        self.impls = self.j['impls']
        self.items = dict((a['path'], a) for a in self.j['items'])
        self.nbodies = len(self.bodies)

    def norm(self, body):
        """the body with every closure of a known std combinator expanded (normal form A12)"""
        path = body if isinstance(body, str) else body.path
        if path not in self._norm:
            import desugar
            jb = self.bodies[path].j
            dz = desugar.Desugarer(self._inl, lambda c, k, j: True, self._adt_paths)
            dz.plain_call = lambda c: c not in self.unknown_functions
            jd = dz.run(jb)
            self._norm[path] = self.bodies[path] if jd is jb else Body(self, desugar.split_switch_operands(jd))
        return self._norm[path]

    def body(self, path, what=None):
        if path in self.bodies:
            return self.bodies[path]
        raise AnchorMissing('function %s not found (%s)' % (path, what or 'anchor'))

    def find_bodies(self, regex):
        r = re.compile(regex)
        return [b for p, b in self.bodies.items() if r.search(p)]

    def one_body(self, regex, what=None):
        bs = self.find_bodies(regex)
        if len(bs) != 1:
            raise AnchorMissing('expected exactly one function matching /%s/ (%s), found %d' %
                                (regex, what or 'anchor', len(bs)))
        return bs[0]

    def resolve(self, regex, predicate, what, scope=None):
        """Find a function by its path; when it was renamed, fall back to its role: the unique
        non-closure function (inside `scope`, a path prefix) satisfying `predicate`."""
        bs = self.find_bodies(regex)
        bs = [b for b in bs if b.kind != 'Closure']
        if len(bs) == 1:
            return bs[0]
        cands = [b for b in self.bodies.values() if b.kind != 'Closure' and
                 (scope is None or b.path.startswith(scope) or b.path.startswith('<' + scope))]
        hits = []
        for b in cands:
            try:
                if predicate(b):
                    hits.append(b)
            except Exception:
                pass
        if len(hits) == 1:
            return hits[0]
        raise AnchorMissing('%s: not found by name /%s/ (%d) nor uniquely by role (%d candidates)' %
                            (what, regex, len(bs), len(hits)))

    def _spliced(self, body):
        """closures whose body already lives inside another body (A12): not separate units any more"""
        out = set(body.j.get('desugared', []))
        for v in self.desugared.values():
            out.update(v)
        return out

    def closures_of(self, body):
        sp = self._spliced(body)
        return [b for b in self.bodies.values() if b.kind == 'Closure' and b.j['parent'] == body.path
                and b.path not in sp]

    def closures_under(self, body):
        sp = self._spliced(body)
        return [b for b in self.bodies.values()
                if b.kind == 'Closure' and b.path.startswith(body.path + '::{closure') and b.path not in sp]

    def adt(self, path, what=None):
        if path in self.adts:
            return self.adts[path]
        raise AnchorMissing('type %s not found (%s)' % (path, what or 'anchor'))

    def impls_of(self, trait_suffix, self_regex=None):
        r = []
        for im in self.impls:
            tr = im.get('trait')
            if not tr:
                continue
            if tr == trait_suffix or tr.endswith('::' + trait_suffix):
                if self_regex is None or re.search(self_regex, im['self']):
                    r.append(im)
        return r

    def all_calls(self, *pats):
        out = []
        for b in self.bodies.values():
            for c in b.calls:
                if c.is_(*pats):
                    out.append(c)
        return out

    def closure_creation(self, closure_body):
        """(parent body, bb, stmt) of the Aggregate that creates this closure."""
        parent = self.bodies.get(closure_body.j['parent'])
        if parent is None:
            raise AnchorMissing('parent of closure %s not found' % closure_body.path)
        for (i, si, st) in parent.assigns(lambda st: st['rv']['k'] == 'agg' and
                                          st['rv'].get('closure') == closure_body.path):
            return parent, i, st
        raise AnchorMissing('creation site of closure %s not found' % closure_body.path)

    def closure_consumer(self, closure_body):
        """The call in the parent that receives the closure value as an argument."""
        parent, bb, st = self.closure_creation(closure_body)
        l = st['lhs']['l']
        for c in parent.calls:
            for ai, a in enumerate(c.args):
                if a['k'] in ('move', 'copy'):
                    v = parent.val(a)
                    if v.kind == 'agg' and v.key[0] == 'closure' and v.key[1] == closure_body.path:
                        return parent, c, ai
                    if a['place']['l'] == l:
                        return parent, c, ai
        return parent, None, None


# ------------------------------------------------------------------------------------------------
# type walking (A10)
# ------------------------------------------------------------------------------------------------
def walk_type(tree, visit, facts=None, seen=None, follow_local=True):
    """Calls visit(node) for each node of a type tree, transitively through local ADT fields."""
    if seen is None:
        seen = set()
    visit(tree)
    k = tree.get('k')
    if k == 'adt':
        for a in tree['args']:
            walk_type(a, visit, facts, seen, follow_local)
        if facts is not None and follow_local and tree['path'] in facts.adts and tree['path'] not in seen:
            seen.add(tree['path'])
            for v in facts.adts[tree['path']]['variants']:
                for f in v['fields']:
                    walk_type(f['tree'], visit, facts, seen, follow_local)
    elif k in ('ref', 'ptr', 'slice', 'array'):
        walk_type(tree['t'], visit, facts, seen, follow_local)
    elif k == 'tuple':
        for a in tree['ts']:
            walk_type(a, visit, facts, seen, follow_local)
