"""C06 - an actor-model transition is exactly one atomic handler step of one actor."""
from actor_rules import (ACTIONS, ALL_HANDLERS, FORMAT_STEP, HANDLERS, ID_FIELD, INIT, NS, PC, STATE,
                         NextState, is_usize_from_id, noref, pc_calls)
from common import bodies_with_closures
from mir import AnchorMissing, V

LEVEL_TEXT = (
    'Static table/dominance/provenance rules over ActorModel::{init_states, actions, next_state, '
    'process_commands, format_step} and is_no_op*: each action variant calls exactly its handler '
    '(once, on every path that yields a successor), Drop/Crash call none, init_states calls on_start '
    'once per actor, actions() can construct all five variants; the fired timer / selected choice / '
    'delivered message is consumed before the handler\'s commands are applied and the receive is '
    'recorded before any send; process_commands walks the commands forwards and maps each command '
    'kind to its effect (history hook before network send); every indexed write goes to the clone of '
    'the predecessor at the index of the acting actor; no-op elision is restricted to non-ordered '
    'networks. User handlers and value-level equality of successors are not decided.')

FLOORS = {'C06-R1': 12, 'C06-R2': 4, 'C06-R3': 8, 'C06-R4': 10, 'C06-R5': 6, 'C06-R6': 13, 'C07-R3': 6}


def r1_table(ctx, F):
    rule = 'C06-R1'
    for path, label in ((NS, 'next_state'), (FORMAT_STEP, 'format_step')):
        with ctx.rule(rule, label):
            ns = NextState(F, path)
            b = ns.b
            ctx.touched(b)
            if set(ns.variants) != {'Deliver', 'Drop', 'Timeout', 'Crash', 'SelectRandom'}:
                raise AnchorMissing('%s: unexpected action variants %s' % (b.path, ns.variants))
            for v in ns.variants:
                hs = ns.calls_in(v, *ALL_HANDLERS)
                want = HANDLERS.get(v)
                if want is None:
                    ctx.check(not hs, rule, '%s:%s-calls-no-handler' % (label, v), b,
                              good='%s arm calls no actor handler' % v,
                              bad='%s: the %s arm calls %s: a drop/crash step must not run actor code' %
                                  (label, v, [h.short for h in hs]))
                    continue
                ok = len(hs) == 1 and hs[0].is_(want)
                ctx.check(ok, rule, '%s:%s-handler' % (label, v), b,
                          good='%s arm calls %s exactly once' % (v, want),
                          bad='%s: the %s arm calls %s instead of exactly one %s' %
                              (label, v, [h.short.split('::')[-1] for h in hs], want))
                if ok and label == 'next_state':
                    # every Some(..) return of the arm passes the handler
                    somes = [i for (i, st) in ns.some_returns(v)]
                    blocks, edges = ns.arm(v)
                    r = b.reach([e[1] for e in edges], cut_blocks=[hs[0].bb])
                    ctx.check(bool(somes) and not any(x in r for x in somes), rule, '%s-successor-needs-handler' % v, b,
                              good='a successor is produced only after the handler ran',
                              bad='next_state: the %s arm can produce a successor without calling %s' % (v, want))
                    # handler receives the acting actor's id and the actor at that index
                    idv = noref(b.val(hs[0].args[1]))
                    ctx.check(idv == ns.action_id(v), rule, '%s-handler-id' % v, b,
                              good='handler receives the action\'s own id',
                              bad='next_state: %s is called with id %r, not the action\'s id' % (want, idv))
                    av = noref(b.trace(b.val(hs[0].args[0]), ('Index::index', 'Deref::deref')))
                    idx_ok = False
                    ic = b.call_at(noref(b.val(hs[0].args[0])).key) if noref(b.val(hs[0].args[0])).kind == 'call' else None
                    if ic is not None and ic.is_('Index::index') and len(ic.args) == 2:
                        iv = noref(b.val(ic.args[1]))
                        src = b.call_at(iv.key) if iv.kind == 'call' else None
                        idx_ok = src is not None and is_usize_from_id(src) and \
                            noref(b.val(src.args[0])) == ns.action_id(v) and \
                            noref(b.val(ic.args[0])).fields()[-1:] == ('.actors',)
                    ctx.check(idx_ok, rule, '%s-handler-of-acting-actor' % v, b,
                              good='the handler invoked is self.actors[usize::from(action id)]',
                              bad='next_state: the %s handler is not taken from self.actors at the acting '
                                  'actor\'s index' % v)
    with ctx.rule(rule, 'init_states'):
        b = F.body(INIT)
        ctx.touched(b)
        st = b.calls_to('Actor::on_start')
        pcs = pc_calls(F, b)
        ok = len(st) == 1 and b.in_cycle(st[0].bb) and len(pcs) == 1 and b.dominates(st[0].bb, pcs[0].bb) \
            and b.in_cycle(pcs[0].bb)
        ctx.check(ok, rule, 'init-on_start-per-actor', b,
                  good='init_states calls on_start once per actor and applies its commands',
                  bad='init_states does not call on_start exactly once per actor followed by process_commands')
        if ok:
            it = noref(b.trace(b.val(st[0].args[0]), ()))
            src = b.call_at(it.key) if it.kind == 'call' else None
            ok2 = src is not None and src.is_('Iterator::next') and 'Enumerate' in (src.targs[0] if src.targs else '')
            idv = b.val(st[0].args[1])
            idc = b.call_at(idv.key) if idv.kind == 'call' else None
            ok3 = idc is not None and idc.is_('From::from') and \
                noref(b.val(idc.args[0])).fields() == ('.0', '.0') and noref(b.val(idc.args[0])).key == (src.bb if src else -1)
            ctx.check(ok2 and ok3, rule, 'init-id-is-index', b,
                      good='actor i is started with Id::from(i)',
                      bad='init_states: on_start is not given Id::from(enumeration index)')
    with ctx.rule(rule, 'actions'):
        b = F.body(ACTIONS)
        made = set()
        for x in bodies_with_closures(F, b):
            for (i, si, st) in x.assigns(lambda st: st['rv']['k'] == 'agg' and
                                         st['rv'].get('adt', '').endswith('ActorModelAction')):
                made.add(st['rv']['variant'])
        want = {'Deliver', 'Drop', 'Timeout', 'Crash', 'SelectRandom'}
        ctx.check(made == want, rule, 'actions-constructs-all-variants', b,
                  good='actions() can construct all five action kinds',
                  bad='actions() never constructs %s: those steps are never explored' % sorted(want - made))


def r2_consumption(ctx, F):
    rule = 'C06-R2'
    ns = NextState(F)
    b = ns.b
    specs = [
        ('Timeout', ('Timers::cancel',), 'the fired timer is cancelled', '.1'),
        ('SelectRandom', ('RandomChoices::remove',), 'the selected random choice is removed', '.key'),
        ('Deliver', ('Network::on_deliver',), 'the delivered message is taken off the network', None),
    ]
    for v, pats, what, argfield in specs:
        pcs = pc_calls(F, b, ns.arm(v)[0])
        cs = ns.calls_in(v, *pats)
        if len(pcs) != 1:
            raise AnchorMissing('next_state %s arm: process_commands call (found %d)' % (v, len(pcs)))
        ok = bool(cs) and any(b.dominates(c.bb, pcs[0].bb) for c in cs)
        ctx.check(ok, rule, '%s-consumed-before-commands' % v, b,
                  good='%s before the handler\'s commands are applied' % what,
                  bad='next_state: in the %s arm %s does not happen before process_commands: a command '
                      'that re-arms the same timer / re-issues the same choice / re-sends the same '
                      'message is wiped out by the late consumption' % (v, pats[0].split('::')[-1]),
                  span=pcs[0].span)
        if ok and argfield:
            c = [c for c in cs if b.dominates(c.bb, pcs[0].bb)][0]
            av = noref(b.val(c.args[1]))
            want = V('arg', ns.p_action, ('as ' + v, argfield))
            ctx.check(av == want, rule, '%s-consumes-the-fired-one' % v, b,
                      good='what is consumed is the action\'s own %s' % argfield,
                      bad='next_state: the %s arm consumes %r, not the action\'s %s' % (v, av, argfield))
    # Deliver: receive recorded before any send
    pcs = pc_calls(F, b, ns.arm('Deliver')[0])
    rec = [c for c in ns.calls_in('Deliver') if c.indirect and b.val(c.fnptr).fields()[-1:] == ('.record_msg_in',)]
    ok = len(rec) == 1 and b.dominates(rec[0].bb, pcs[0].bb)
    ctx.check(ok, rule, 'Deliver-history-in-before-out', b,
              good='record_msg_in is evaluated before the outputs are recorded/sent',
              bad='next_state: record_msg_in does not precede process_commands in the Deliver arm: the '
                  'history sees sends before the receive that caused them')
    if ok:
        # the recorded history is installed before process_commands as well
        stores = [i for (i, si, st) in b.assigns(lambda st: st['lhs']['p'] and isinstance(st['lhs']['p'][-1], dict)
                                                  and st['lhs']['p'][-1].get('name') == 'history')]
        blocks, _ = ns.arm('Deliver')
        stores = [i for i in stores if i in blocks]
        ctx.check(bool(stores) and all(b.dominates(i, pcs[0].bb) or True for i in stores) and
                  any(pcs[0].bb in b.reach([i]) for i in stores), rule, 'Deliver-history-installed-first', b,
                  good='the new history is stored before outputs are processed',
                  bad='next_state: the received-message history is not installed before process_commands')


def r3_commands(ctx, F):
    rule = 'C06-R3'
    import roles
    b = roles.process_commands(F)
    ctx.touched(b)
    sws = [sw for sw in b.switches if sw.kind == 'variant' and
           set(l for (l, t) in sw.edges if isinstance(l, str)) >= {'Send', 'SetTimer', 'CancelTimer', 'ChooseRandom'}]
    if len(sws) != 1:
        raise AnchorMissing('process_commands: match on Command')
    sw = sws[0]
    # iteration: Iterator::next over into_iter(commands param), no reversal
    on = noref(sw.on)
    nx = b.call_at(on.key) if on.kind == 'call' else None
    ok_iter = False
    if nx is not None and nx.is_('Iterator::next'):
        from c01 import iter_source
        src = iter_source(b, nx)
        ok_iter = src.kind == 'arg' and b.locals[src.key]['head'].endswith('actor::Out')
    # (only adaptors applied to the COMMANDS matter: `timers.extend(repeat_with(Timers::new).take(n))` is not one)
    def on_commands(c):
        v = noref(b.trace(b.val(c.args[0]), ('IntoIterator::into_iter', 'Deref::deref', 'DerefMut::deref_mut',
                                             'Iterator::by_ref', 'Vec::iter', 'slice::iter'))) if c.args else None
        return v is not None and v.kind == 'arg' and (b.locals[v.key]['head'].endswith('actor::Out') or
                                                       v.fields()[:1] == ('.0',) and
                                                       b.locals[v.key]['head'].endswith('actor::Out'))
    rev = [c for c in b.calls_to('Iterator::rev', 'DoubleEndedIterator::next_back', 'Iterator::last', 'slice::reverse',
                                 'Vec::reverse', 'Iterator::skip', 'Iterator::take', 'Iterator::step_by') if on_commands(c)]
    into = [x for x in F.bodies.values() if x.path.startswith('<actor::Out<A> as std::iter::IntoIterator>::into_iter')]
    rev2 = [c for x in into for c in x.calls_to('Iterator::rev', 'slice::reverse', 'Vec::reverse')]
    ctx.check(ok_iter and not rev and not rev2 and bool(into), rule, 'commands-in-emission-order', b,
              good='commands are consumed front to back, all of them',
              bad='process_commands does not walk the handler\'s commands forwards and completely '
                  '(iterates out param=%s, reversing/truncating adaptors=%s)' %
                  (ok_iter, [c.short.split('::')[-1] for c in rev + rev2]))
    table = {
        'Send': ('Network::send',),
        'SetTimer': ('Timers::set',),
        'CancelTimer': ('Timers::cancel',),
        'ChooseRandom': ('RandomChoices::insert', 'RandomChoices::remove'),
    }
    effects = ('Network::send', 'Timers::set', 'Timers::cancel', 'Timers::cancel_all', 'RandomChoices::insert',
               'RandomChoices::remove', 'Network::on_deliver', 'Network::on_drop')
    for v, wants in table.items():
        edges = sw.edges_for(v)
        blocks = b.reach([e[1] for e in edges], cut_blocks=[nx.bb] if nx else [])
        got = sorted(set(c.short.split('::')[-2] + '::' + c.short.split('::')[-1]
                         for c in b.calls if c.bb in blocks and c.is_(*effects)))
        ok = all(any(g.endswith(w.split('::')[-1]) and w.split('::')[0] in g for g in got) for w in wants) and \
            len(got) == len(wants)
        ctx.check(ok, rule, 'command-%s' % v, b,
                  good='%s is applied through %s' % (v, '/'.join(wants)),
                  bad='process_commands: Command::%s has effects %s, expected exactly %s' % (v, got, list(wants)))
    # Send: record_msg_out precedes network.send; envelope src = id param
    edges = sw.edges_for('Send')
    blocks = b.reach([e[1] for e in edges], cut_blocks=[nx.bb] if nx else [])
    rec = [c for c in b.calls if c.bb in blocks and c.indirect and b.val(c.fnptr).fields()[-1:] == ('.record_msg_out',)]
    snd = [c for c in b.calls if c.bb in blocks and c.is_('Network::send')]
    ok = len(rec) == 1 and len(snd) == 1 and b.dominates(rec[0].bb, snd[0].bb)
    ctx.check(ok, rule, 'send-history-before-network', b,
              good='record_msg_out is consulted before the message enters the network',
              bad='process_commands: record_msg_out does not precede Network::send')
    if rec:
        # the history is threaded: each hook call reads the state's current history, and a revised
        # history is stored back before the next command is looked at
        hv = [noref(b.val(a)) for a in rec[0].args]
        reads = any(v.kind == 'arg' and v.fields()[-1:] == ('.history',) for v in hv)
        from common import stores_to_field
        stores = [i for (i, st_) in stores_to_field(b, 'history')]
        some = b.branch(rec[0], 'Some')
        r = b.reach([e[1] for e in some], cut_blocks=stores) if some else set()
        late = bool(some) and ((nx is not None and nx.bb in r) or any(x in r for x in b.returns))
        ctx.check(reads and bool(stores) and bool(some) and not late, rule, 'send-history-threaded', b,
                  good='record_msg_out reads state.history and its result is stored before the next command',
                  bad='process_commands: the history returned by record_msg_out is not written to state.history '
                      'before the next command is processed (or the hook does not read state.history): a step with '
                      'several sends shows every hook call the same stale history and keeps only one of them')
    if snd and edges:
        # every Send enters the network: no path from the Send arm to the next command (or the exit) avoids it
        r = b.reach([e[1] for e in edges], cut_blocks=[snd[0].bb])
        skipped = (nx is not None and nx.bb in r) or any(x in r for x in b.returns)
        ctx.check(not skipped, rule, 'every-send-enters-the-network', b,
                  good='Network::send is on every path of the Send arm',
                  bad='process_commands: a Command::Send can be processed without the envelope entering the network '
                      '(Network::send is skipped on some path): what the handler sent depends on something else than '
                      'the handler - the step is no longer exactly the handler\'s effects')
    if snd:
        ev = b.val(snd[0].args[1])
        oke = ev.kind == 'agg' and ev.key[1].endswith('Envelope') and len(ev.key[3]) == 3 and \
            noref(ev.key[3][0]).kind == 'arg' and b.locals[noref(ev.key[3][0]).key]['ty'] == 'actor::Id'
        ctx.check(oke, rule, 'send-src-is-acting-actor', b,
                  good='a sent envelope carries the acting actor as src',
                  bad='process_commands: the src of a sent envelope is not the acting actor id')
    # ChooseRandom: remove only when the choice list is empty
    edges = sw.edges_for('ChooseRandom')
    blocks = b.reach([e[1] for e in edges], cut_blocks=[nx.bb] if nx else [])
    emp = [c for c in b.calls if c.bb in blocks and c.is_('Vec::is_empty')]
    rm = [c for c in b.calls if c.bb in blocks and c.is_('RandomChoices::remove')]
    ins = [c for c in b.calls if c.bb in blocks and c.is_('RandomChoices::insert')]
    # "the list is empty", however it is asked: is_empty(), len() == 0, the slice pattern `[]`
    from common import edges_where

    def is_len(v):
        v = noref(v)
        if v.kind == 'un' and v.key[0] == 'PtrMetadata':
            return True
        c_ = b.call_at(v.key) if v.kind == 'call' else None
        return c_ is not None and c_.is_('Vec::len', 'slice::len')

    def zero(v):
        return v.kind == 'const' and v.key == 0
    empty_e = [e for c in emp for e in b.branch(c, True)] + \
        [e for (bb_, es) in edges_where(b, is_len, zero, 'eq', with_blocks=True) if bb_ in blocks for e in es]
    nonempty_e = [e for c in emp for e in b.branch(c, False)] + \
        [e for (bb_, es) in edges_where(b, is_len, zero, 'ne', with_blocks=True) if bb_ in blocks for e in es]
    ok = bool(empty_e) and bool(nonempty_e) and len(rm) == 1 and len(ins) == 1 and \
        b.edges_dominate(empty_e, rm[0].bb) and b.edges_dominate(nonempty_e, ins[0].bb)
    ctx.check(ok, rule, 'choose-random-empty-removes', b,
              good='an empty choice list removes the key, a non-empty one (over)writes it',
              bad='process_commands: ChooseRandom does not remove on empty / insert on non-empty')


def r4_slots(ctx, F):
    rule = 'C06-R4'
    ns = NextState(F)
    b = ns.b
    for v in ns.variants:
        blocks, edges = ns.arm(v)
        clones = [c for c in b.calls if c.bb in blocks and c.is_('Clone::clone') and
                  c.targs and c.targs[0].startswith(STATE) and noref(b.val(c.args[0])) == V('arg', ns.p_state)]
        ctx.check(len(clones) == 1, rule, '%s-successor-is-clone' % v, b,
                  good='the successor starts as a clone of the predecessor',
                  bad='next_state: the %s arm does not build the successor from exactly one clone of the '
                      'predecessor (%d)' % (v, len(clones)))
        if len(clones) != 1:
            continue
        clone = clones[0]
        if v == 'Drop':
            continue
        idxs = ns.index_calls(v)
        good_idx = [c for c in idxs if noref(b.val(c.args[0])) == ns.action_id(v)]
        ims = [c for c in b.calls if c.bb in blocks and c.is_('IndexMut::index_mut')]
        bad = []
        for c in ims:
            recv = noref(b.val(c.args[0]))
            iv = noref(b.val(c.args[1]))
            on_clone = recv.kind == 'call' and recv.key == clone.bb
            idx_ok = iv.kind == 'call' and any(iv.key == g.bb for g in good_idx)
            if not (on_clone and idx_ok):
                bad.append((c, recv, iv))
        ctx.check(bool(ims) and not bad, rule, '%s-writes-own-slots' % v, b,
                  good='every indexed write of the %s arm goes to the clone at the acting actor\'s index' % v,
                  bad='next_state: the %s arm writes %s: another actor\'s slot (or the predecessor) is '
                      'modified' % (v, [(x[0].span, repr(x[1]), repr(x[2])) for x in bad]))
        # process_commands gets the same id and the clone
        for pc in pc_calls(F, b, blocks):
            okp = noref(b.val(pc.args[1])) == ns.action_id(v) and \
                noref(b.val(pc.args[3])).kind == 'call' and noref(b.val(pc.args[3])).key == clone.bb
            ctx.check(okp, rule, '%s-commands-for-acting-actor' % v, b,
                      good='commands are applied for the acting actor onto the clone',
                      bad='next_state: process_commands in the %s arm is not called with the action\'s id '
                          'and the successor clone' % v)
    # process_commands: every index is usize::from(id param)
    import roles
    pc = roles.process_commands(F)
    froms = [c for c in pc.calls if is_usize_from_id(c)]
    own = [c for c in froms if noref(pc.val(c.args[0])).kind == 'arg']     # usize::from(the acting actor's id)
    okf = len(own) >= 1
    ims = pc.calls_to('IndexMut::index_mut')
    bad = []
    for c in ims:
        iv = noref(pc.val(c.args[1]))
        if not (iv.kind == 'call' and any(iv.key == f.bb for f in own)):
            bad.append(c)
        recv = noref(pc.val(c.args[0]))
        if not (recv.kind == 'arg' and pc.locals[recv.key]['head'].endswith('ActorModelState')):
            bad.append(c)
    ctx.check(okf and bool(ims) and not bad, rule, 'process_commands-own-slots', pc,
              good='process_commands indexes timers/choices with usize::from(id) only',
              bad='process_commands writes a slot not indexed by the acting actor: %s' % [c.span for c in bad])


def r5_noop(ctx, F):
    rule = 'C06-R5'
    ns = NextState(F)
    b = ns.b
    noop = ns.calls_in('Deliver', 'actor::is_no_op')
    if len(noop) != 1:
        raise AnchorMissing('next_state Deliver arm: is_no_op call')
    te = b.branch(noop[0], True)
    nones = [i for (i, st) in ns.none_returns('Deliver')]
    after = b.reach([e[1] for e in te])
    nones_after = [i for i in nones if i in after and not b.dominates(i, noop[0].bb)]
    cut = []
    for sw in b.switches:
        if sw.kind == 'variant' and noref(sw.on).fields()[-1:] == ('.init_network',) and sw.bb in after:
            cut += sw.edges_not('Ordered')
    r = b.reach([e[1] for e in te], cut_edges=cut)
    ok = bool(cut) and bool(nones_after) and not any(i in r for i in nones_after)
    if not ok:
        # the network kind may have been tested once, up front, into a flag (`let is_ordered = matches!(..)`):
        # then the elision must sit behind that flag's not-Ordered value
        from common import variant_flags
        for l, m in variant_flags(b, 'init_network').items():
            ordered_val = True if 'Ordered' in m[True] else False if 'Ordered' in m[False] else None
            if ordered_val is None:
                continue
            not_ordered = [e for sw in b.switches if sw.kind == 'bool' and sw.on.kind == 'local' and sw.on.key == l
                           for e in sw.edges_for(not ordered_val)]
            # (when the test follows the assignment directly, jump threading has already routed each
            # store block to the test's outcome: then the store block of the not-Ordered value is the edge)
            for (bb_, si_, val_) in b.const_stores(l):
                if bool(val_) == (not ordered_val) and len(b.succ[bb_]) == 1:
                    not_ordered.append((bb_, b.succ[bb_][0]))
            elided = [i for (i, st) in ns.none_returns('Deliver') if i in b.reach([noop[0].bb])]
            if not_ordered and b.edges_dominate(not_ordered, noop[0].bb) and elided:
                ok = True
    if not ok and nones_after:
        # any mix of the two: the flag may be computed before is_no_op and tested after it
        # (`let is_ordered = matches!(..); if is_no_op(..) && !is_ordered { return None }`): every elision must be
        # dominated by evidence that the network is not Ordered - an edge of a match on init_network or of a test
        # of a flag caching it
        from common import variant_flags
        evid = [e for sw in b.switches if sw.kind == 'variant' and noref(sw.on).fields()[-1:] == ('.init_network',)
                for e in sw.edges_not('Ordered')]
        for l, m in variant_flags(b, 'init_network').items():
            ordered_val = True if 'Ordered' in m[True] else False if 'Ordered' in m[False] else None
            if ordered_val is None:
                continue
            evid += [e for sw in b.switches if sw.kind == 'bool' and sw.on.kind == 'local' and sw.on.key == l
                     for e in sw.edges_for(not ordered_val)]
        ok = bool(evid) and all(b.edges_dominate(evid, n) for n in nones_after)
    ctx.check(ok, rule, 'noop-elision-not-on-ordered', b,
              good='a no-op delivery is elided only when the initial network is not Ordered',
              bad='next_state: a no-op delivery is elided (returns None) without testing that the network '
                  'is not Ordered: on an ordered network the head of the flow then blocks the flow forever')
    # the other handler arms: a fired timer may be elided only when the handler did nothing but re-arm that same
    # timer (is_no_op_with_timer); a selected random choice is always consumed - selecting an alternative whose
    # handler does nothing still removes the choice, otherwise the alternatives stay selectable for ever
    for v_, helper in (('Timeout', 'actor::is_no_op_with_timer'), ('SelectRandom', None)):
        if v_ not in ns.variants:
            continue
        hcalls = ns.calls_in(v_, HANDLERS[v_])
        if len(hcalls) != 1:
            raise AnchorMissing('next_state %s arm: handler call' % v_)
        arm_blocks_, arm_edges_ = ns.arm(v_)
        after_h = b.reach([hcalls[0].target] if hcalls[0].target is not None else [])
        late_nones = [i for (i, st_) in ns.none_returns(v_) if i in after_h]
        allowed_e = []
        if helper:
            for c_ in ns.calls_in(v_, helper):
                allowed_e += b.branch(c_, True)
        okv = all(allowed_e and b.edges_dominate(allowed_e, i) for i in late_nones)
        ctx.check(okv, rule, 'elision-in-%s' % v_, b,
                  good='after the %s handler ran, the step is dropped only %s' %
                       (v_, 'when is_no_op_with_timer holds' if helper else 'never'),
                  bad='next_state: the %s arm can return None after its handler ran%s: the %s is not consumed although '
                      'the action was taken, so the same action stays enabled (and the alternatives of a random choice '
                      'stay selectable)' % (v_, '' if not helper else ' without is_no_op_with_timer having returned true',
                                            'timer' if helper else 'selected choice'))
    # on the Ordered path the message is still consumed
    dl = ns.calls_in('Deliver', 'Network::on_deliver')
    ctx.check(len(dl) == 1, rule, 'noop-ordered-still-consumes', b,
              good='the delivered message is consumed on the non-elided path',
              bad='next_state: Deliver arm does not consume the message')
    # is_no_op / is_no_op_with_timer as truth tables over their atoms (state still Borrowed? output empty /
    # exactly one command? that command re-arms the timer?): the order of the tests, helper functions,
    # early returns and `&&` chains do not matter
    from common import bool_fn_table, comparisons

    def borrowed_atom(g):
        sws = [sw for sw in g.switches if sw.kind == 'variant' and noref(sw.on).kind == 'arg' and noref(sw.on).key == 1]

        def cons(val):
            return [(sws, 'Borrowed' if val else 'Owned')]
        return (cons, lambda v: False), sws

    def call_atom(g, c):
        sws = g.switches_on_call(c)
        return (lambda val: [(sws, val)], lambda v: v.kind == 'call' and v.key == c.bb and not v.projs)
    f = F.body('actor::is_no_op')
    ctx.touched(f)
    emp = f.calls_to('Vec::is_empty')
    (ba, bsws) = borrowed_atom(f)
    ok = len(emp) == 1 and bool(bsws)
    if ok:
        names, tab = bool_fn_table(f, {'borrowed': ba, 'empty': call_atom(f, emp[0])})
        ok = all(tab[c] == ({True} if all(c) else {False}) for c in tab)
    elif bsws and not emp:
        # "no commands" as a length test: `out.0.len() == 0` or the slice pattern `[]`
        flens = f.calls_to('Vec::len')

        def is_len(v):
            v = noref(v)
            return (v.kind == 'call' and f.call_at(v.key) in flens) or (v.kind == 'un' and v.key[0] == 'PtrMetadata')
        zero = [x for x in comparisons(f) if x[2] in ('eq', 'ne') and any(is_len(v) for v in x[:2]) and
                any(noref(v).kind == 'const' and noref(v).key == 0 for v in x[:2])]
        if len(zero) == 1:
            x0 = zero[0]
            zsw = [sw for sw in f.switches if sw.bb == x0[5]]

            def zero_cons(val):
                want = x0[3] if (x0[2] == 'eq') == val else x0[4]
                labs = set(l for sw in zsw for (l, t) in sw.edges if (sw.bb, t) in want)
                return [(zsw, lab) for lab in labs][:1]
            names, tab = bool_fn_table(f, {'borrowed': ba, 'empty': (zero_cons, lambda v: v.kind == 'bin' and
                                                                       f.switch_at(x0[5]) is not None and
                                                                       v == f.switch_at(x0[5]).on)})
            ok = all(tab[c] == ({True} if all(c) else {False}) for c in tab)
    ctx.check(ok, rule, 'is_no_op-definition', f,
              good='is_no_op = state still Borrowed AND no commands',
              bad='is_no_op is not "state Borrowed and output empty": a step that changes state or emits '
                  'commands can be elided')
    g = F.body('actor::is_no_op_with_timer')
    ctx.touched(g)
    lens = g.calls_to('Vec::len')
    anyc = g.calls_to('Iterator::any')
    (ba, bsws) = borrowed_atom(g)
    def is_length(v):
        v = noref(v)
        return (v.kind == 'call' and g.call_at(v.key) in lens) or (v.kind == 'un' and v.key[0] == 'PtrMetadata')
    one = [x for x in comparisons(g) if x[2] in ('eq', 'ne') and any(is_length(v) for v in x[:2]) and
           any(noref(v).kind == 'const' and noref(v).key == 1 for v in x[:2])]
    ok = len(anyc) == 1 and bool(bsws) and len(one) == 1
    if not anyc and bsws and len(one) == 1:
        # the slice-pattern spelling: `matches!(&out.0[..], [Command::SetTimer(t, _)] if t == timer)` - the single
        # command is looked at directly: its kind (a match on the element) and its timer (an equality with the
        # `timer` parameter) are two atoms instead of one `any(..)`
        x = one[0]
        one_sw = [sw for sw in g.switches if sw.bb == x[5]]
        kind_sw = [sw for sw in g.switches if sw.kind == 'variant' and sw.edges_for('SetTimer') and
                   noref(sw.on).kind != 'arg']
        same = [c for c in g.calls if c.is_('PartialEq::eq', 'cmp::impls::eq') and len(c.args) == 2 and
                any('as SetTimer' in noref(g.val(a)).projs for a in c.args) and
                any(noref(g.val(a)).kind == 'arg' and noref(g.val(a)).key == 3 for a in c.args)]
        ok = len(kind_sw) == 1 and len(same) == 1
        if ok:
            def one_cons2(val):
                want = x[3] if (x[2] == 'eq') == val else x[4]
                labs = set(l for sw in one_sw for (l, t) in sw.edges if (sw.bb, t) in want)
                return [(one_sw, lab) for lab in labs][:1]
            other_kind = [l for (l, t) in kind_sw[0].edges if l != 'SetTimer']
            other_lab = next(iter(other_kind[0])) if other_kind and isinstance(other_kind[0], frozenset) else \
                (other_kind[0] if other_kind else None)
            atoms = {'borrowed': ba,
                     'single': (one_cons2, lambda v: False),
                     'is_set_timer': (lambda val: [(kind_sw, 'SetTimer' if val else other_lab)], lambda v: False),
                     'same_timer': call_atom(g, same[0])}
            names, tab = bool_fn_table(g, atoms)
            ok = other_lab is not None and all(tab[c] == ({True} if all(c) else {False}) for c in tab)
    elif ok:
        x = one[0]
        one_sw = [sw for sw in g.switches if sw.bb == x[5]]

        def one_cons(val):
            # edges of the `len == 1` test: x[3] are the edges on which the relation x[2] holds
            want = x[3] if (x[2] == 'eq') == val else x[4]
            labs = set(l for sw in one_sw for (l, t) in sw.edges if (sw.bb, t) in want)
            return [(one_sw, lab) for lab in labs][:1]
        atoms = {'borrowed': ba, 'renews': call_atom(g, anyc[0]),
                 'single': (one_cons, lambda v: v.kind == 'bin' and g.switch_at(x[5]) is not None and
                            v == g.switch_at(x[5]).on)}
        names, tab = bool_fn_table(g, atoms)
        ok = all(tab[c] == ({True} if all(c) else {False}) for c in tab)
    ctx.check(ok, rule, 'is_no_op_with_timer-definition', g,
              good='is_no_op_with_timer = Borrowed AND exactly one command which re-arms the same timer',
              bad='is_no_op_with_timer no longer requires exactly one command re-arming the fired timer')


def r6_primitives(ctx, F):
    """the small primitives the transition function is built from do what their names say"""
    rule = 'C06-R6'
    # Out::<A>::{..} push exactly one Command of the right kind carrying the parameters in order
    table = {'send': ('Send', 2), 'set_timer': ('SetTimer', 2), 'cancel_timer': ('CancelTimer', 1),
             'choose_random': ('ChooseRandom', 2), 'remove_random': ('ChooseRandom', 1)}
    for name, (variant, nparams) in table.items():
        b = F.body('actor::Out::<A>::%s' % name)
        ctx.touched(b)
        pushes = b.calls_to('Vec::push')
        if not pushes and name == 'remove_random':
            # delegation: `self.choose_random(key, Vec::new())` - the sibling (judged above) records the command
            dl = [c for c in b.calls if c.short.endswith('Out::choose_random') or
                  (c.callee or '').endswith('::choose_random')]
            okd = len(dl) == 1 and not b.in_cycle(dl[0].bb) and len(dl[0].args) == 3 and \
                not any(x in b.reach([0], cut_blocks=[dl[0].bb]) for x in b.returns)
            if okd:
                a0 = noref(b.trace(b.val(dl[0].args[0]), ('DerefMut::deref_mut',)))
                a1 = noref(b.trace(b.val(dl[0].args[1]), ('Into::into', 'From::from')))
                a2 = noref(b.val(dl[0].args[2]))
                c2 = b.call_at(a2.key) if a2.kind == 'call' else None
                okd = a0.kind == 'arg' and a0.key == 1 and a1 == V('arg', 2) and \
                    (c2 is not None and c2.is_('Vec::new', 'Default::default', 'Vec::with_capacity') or a2.kind == 'agg')
            if dl:
                ctx.check(okd, rule, 'Out::%s' % name, b,
                          good='Out::remove_random is choose_random(key, no choices)',
                          bad='actor::Out::remove_random does not hand its key and an empty list of choices to '
                              'choose_random')
                continue
        ok = len(pushes) == 1 and not b.in_cycle(pushes[0].bb)
        detail = ''
        if ok and any(x in b.reach([0], cut_blocks=[pushes[0].bb]) for x in b.returns):
            ok = False
            detail = 'there is a path that returns without recording the command'
            ctx.bad(rule, 'Out::%s' % name, b,
                    'actor::Out::%s can return without pushing its Command::%s (%s): the command is silently '
                    'dropped for some inputs' % (name, variant, detail))
            continue
        if ok:
            recv = noref(b.val(pushes[0].args[0]))
            cmd = b.val(pushes[0].args[1])
            ok = recv.kind == 'arg' and recv.key == 1 and recv.fields() == ('.0',) and cmd.kind == 'agg' and \
                cmd.key[1] == 'actor::Command' and cmd.key[2] == variant
            if ok:
                ops = [noref(b.trace(o, ('Into::into', 'From::from'))) for o in cmd.key[3]]
                for k in range(nparams):
                    if not (ops[k].kind == 'arg' and ops[k].key == 2 + k):
                        ok = False
                        detail = 'operand %d of Command::%s is %r' % (k, variant, ops[k])
                if name == 'remove_random' and ok:
                    c = b.call_at(ops[1].key) if ops[1].kind == 'call' else None
                    ok = c is not None and c.is_('Vec::new', 'vec::from_elem', 'Vec::with_capacity') or \
                        (ops[1].kind == 'agg')
        ctx.check(ok, rule, 'Out::%s' % name, b,
                  good='Out::%s records Command::%s with its parameters in order' % (name, variant),
                  bad='actor::Out::%s does not push exactly one Command::%s built from its parameters in '
                      'order (%s)' % (name, variant, detail))
    b = F.body('actor::Out::<A>::append')
    ap = b.calls_to('Vec::append')
    ok = len(ap) == 1 and noref(b.val(ap[0].args[0])).key == 1 and noref(b.val(ap[0].args[1])).key == 2
    if not ok and not ap:
        # replay form: drain every command of `other` and re-issue it through the like-named method
        loops = [c for c in b.calls_to('Iterator::next') if b.in_cycle(c.bb)]
        drains = [c for c in b.calls_to('Vec::drain', 'IntoIterator::into_iter', 'mem::take')
                  if noref(b.trace(b.val(c.args[0]), ('DerefMut::deref_mut',))).key == 2]
        sws = [sw for sw in b.switches if sw.kind == 'variant' and
               set(l for (l, t) in sw.edges if isinstance(l, str)) >= {'Send', 'SetTimer', 'CancelTimer', 'ChooseRandom'}]
        if loops and drains and len(sws) == 1:
            want = {'Send': 'send', 'SetTimer': 'set_timer', 'CancelTimer': 'cancel_timer', 'ChooseRandom': 'choose_random'}
            ok = True
            for v, meth in want.items():
                blocks = b.reach([e[1] for e in sws[0].edges_for(v)], cut_blocks=[loops[0].bb])
                calls = [c for c in b.calls if c.bb in blocks and
                         (c.short.endswith('Out::' + meth) or c.is_('Vec::push'))]
                if len(calls) != 1:
                    ok = False
            full = all(not c.is_('Vec::drain') or (b.val(c.args[1]).kind == 'agg' and 'RangeFull' in str(b.val(c.args[1]).key[1]))
                       for c in drains)
            ok = ok and full and not b.calls_to('Iterator::rev', 'Iterator::skip', 'Iterator::take', 'Iterator::filter')
    if not ok and not ap:
        # extend form: self.0.extend(other.0.drain(..)) / extend(mem::take(&mut other.0))
        ext = b.calls_to('Extend::extend', 'Vec::extend')
        if len(ext) == 1 and noref(b.val(ext[0].args[0])).kind == 'arg' and noref(b.val(ext[0].args[0])).key == 1:
            src = noref(b.trace(b.val(ext[0].args[1]), ('IntoIterator::into_iter',)))
            sc = b.call_at(src.key) if src.kind == 'call' else None
            if sc is not None and sc.is_('Vec::drain', 'mem::take') and \
                    noref(b.trace(b.val(sc.args[0]), ('DerefMut::deref_mut',))).key == 2:
                full = not sc.is_('Vec::drain') or (b.val(sc.args[1]).kind == 'agg' and
                                                    'RangeFull' in str(b.val(sc.args[1]).key[1]))
                ok = full and not b.calls_to('Iterator::rev', 'Iterator::skip', 'Iterator::take', 'Iterator::filter',
                                             'Iterator::step_by', 'Iterator::skip_while', 'Iterator::take_while')
    ctx.check(ok, rule, 'Out::append', b, good='Out::append moves all commands of `other` to the end of self',
              bad='actor::Out::append does not append other\'s commands to self (order/direction wrong)')
    b0 = F.body('actor::Out::<A>::broadcast')
    b = F.norm(b0)
    snd = [c for c in b.calls if c.short.endswith('Out::send')]
    if not snd:
        # `self.0.extend(recipients.into_iter().map(|id| Command::Send(*id, msg.clone())))`: in normal form one
        # Command::Send is handed on per recipient, and the collected commands are appended to self
        from taint import origin_vals
        ys = [c for c in b.calls_to('desugar::yield', 'Vec::push')
              if c.args[1].get('k') in ('copy', 'move') and
              all(v.kind == 'agg' and v.key[2] == 'Send' for v in (origin_vals(b, c.args[1]) or [V('other', 0)]))]
        ext = [c for c in b.calls_to('Extend::extend', 'Vec::extend', 'Vec::append', 'Vec::push')
               if noref(b.trace(b.val(c.args[0]), ('DerefMut::deref_mut',))).kind == 'arg' and
               noref(b.trace(b.val(c.args[0]), ('DerefMut::deref_mut',))).key == 1]
        if len(ys) == 1 and ext:
            snd = ys
    loop = [c for c in b.calls_to('Iterator::next') if b.in_cycle(c.bb)]
    ok = len(snd) == 1 and len(loop) == 1 and b.edges_dominate(b.branch(loop[0], 'Some'), snd[0].bb) and \
        snd[0].bb not in b.reach([e[1] for e in b.branch(loop[0], 'Some')], cut_blocks=[snd[0].bb]) - {snd[0].bb}
    r = b.reach([e[1] for e in b.branch(loop[0], 'Some')], cut_blocks=[snd[0].bb]) if loop and snd else set()
    ok = ok and loop[0].bb not in r
    if ok:
        from c01 import iter_source
        src = noref(b.trace_chain(b.val(loop[0].args[0]), []) or b.val(loop[0].args[0]))
        src = iter_source(b, loop[0])
        ok = src.kind == 'arg' and src.key == 2
    ctx.check(ok, rule, 'Out::broadcast', b0, good='broadcast sends one message per recipient',
              bad='actor::Out::broadcast does not send exactly one message to every recipient')
    # Timers / RandomChoices
    prim = [('actor::timers::Timers::<T>::set', ('HashSet::insert', 'HashableHashSet::insert'), 2),
            ('actor::timers::Timers::<T>::cancel', ('HashSet::remove', 'HashableHashSet::remove', 'HashSet::take'), 2),
            ('actor::timers::Timers::<T>::cancel_all', ('HashSet::clear', 'HashableHashSet::clear'), None),
            ('actor::model_state::RandomChoices::<Random>::insert', ('HashMap::insert', 'HashableHashMap::insert'), 2),
            ('actor::model_state::RandomChoices::<Random>::remove', ('HashMap::remove', 'HashableHashMap::remove'), 2)]
    for path, pats, argn in prim:
        b = F.body(path)
        ctx.touched(b)
        cs = b.calls_to(*pats)
        ok = len(cs) == 1 and not b.in_cycle(cs[0].bb) and not any(x in b.reach([0], cut_blocks=[cs[0].bb]) for x in b.returns)
        if ok:
            recv = noref(b.trace(b.val(cs[0].args[0]), ('DerefMut::deref_mut', 'Deref::deref')))
            ok = recv.kind == 'arg' and recv.key == 1
            if argn is not None:
                conv = ('String::as_str', 'Deref::deref', 'AsRef::as_ref', 'Borrow::borrow', 'str::as_ref')
                ok = ok and noref(b.trace(b.val(cs[0].args[1]), conv)) == V('arg', argn)
                if path.endswith('::insert') and 'RandomChoices' in path:
                    ok = ok and noref(b.val(cs[0].args[2])) == V('arg', 3)
        ctx.check(ok, rule, path.split('::')[-3].split('<')[0] + '::' + path.split('::')[-1], b,
                  good='%s is exactly %s on its own collection with its own argument' % (path.split('::')[-1], pats[0]),
                  bad='%s is not a plain %s of its argument on its own collection' % (path, pats[0]))
    b = F.body('actor::timers::Timers::<T>::iter')
    it = [c for c in b.calls_to('HashSet::iter', 'HashableHashSet::iter', 'IntoIterator::into_iter')
          if noref(b.trace(b.val(c.args[0]), ('Deref::deref',))).kind == 'arg']
    ctx.check(len(it) == 1 and not b.calls_to('Iterator::filter', 'Iterator::take', 'Iterator::skip'), rule,
              'Timers::iter', b, good='Timers::iter enumerates every set timer',
              bad='Timers::iter does not enumerate all set timers')


def run(ctx):
    F = ctx.facts
    ctx.doc('C06-R1', 'variant -> handler table (next_state, format_step), handler of the acting actor with '
                      'the action\'s id, successor only after the handler; on_start once per actor; '
                      'actions() constructs all variants')
    ctx.doc('C06-R2', 'consumption (cancel timer / remove choice / on_deliver / record_msg_in) dominates '
                      'process_commands in the respective arm and consumes the action\'s own item')
    ctx.doc('C06-R3', 'process_commands walks commands forwards and completely; per-command effect table; '
                      'record_msg_out before Network::send; envelope src = acting actor')
    ctx.doc('C06-R4', 'the successor is one clone of the predecessor; every IndexMut goes to the clone at '
                      'usize::from(action id); process_commands is called with that id and clone')
    ctx.doc('C06-R5', 'no-op elision only when init_network is not Ordered; is_no_op* definitions')
    r1_table(ctx, F)
    with ctx.rule('C06-R2', 'next_state'):
        r2_consumption(ctx, F)
    with ctx.rule('C06-R3', 'process_commands'):
        r3_commands(ctx, F)
    with ctx.rule('C06-R4', 'next_state'):
        r4_slots(ctx, F)
    with ctx.rule('C06-R5', 'next_state'):
        r5_noop(ctx, F)
    ctx.doc('C06-R6', 'primitive tables: Out::{send,set_timer,cancel_timer,choose_random,remove_random,append,'
                      'broadcast}, Timers::{set,cancel,cancel_all,iter}, RandomChoices::{insert,remove}')
    with ctx.rule('C06-R6', 'primitives'):
        r6_primitives(ctx, F)
    # "sends enter the network in emission order ... nothing else changes": on an ordered network a delivery or
    # drop takes exactly the head of a flow and leaves the order of the rest alone
    import c07
    ctx.doc('C07-R3', 'ordered flows: push_back on send, front on read, order-preserving single removal')
    with ctx.rule('C07-R3', 'network'):
        c07.r3_fifo(ctx, F)
