"""Structural rules shared by the linearizability and sequential-consistency testers."""
import re
from collections import Counter

from actor_rules import noref
from common import bodies_with_closures, type_mentions
from mir import AnchorMissing, V

LIN = 'semantics::linearizability::LinearizabilityTester'
SC = 'semantics::sequential_consistency::SequentialConsistencyTester'


def noref_(v):
    from checkers import noref
    return noref(v)


def tester_fn(F, ty, name):
    bs = [x for x in F.bodies.values() if x.kind != 'Closure' and x.path.endswith('::' + name) and
          (x.path.startswith(ty + '::<') or x.path.startswith('<' + ty + '<'))]
    inherent = [x for x in bs if x.path.startswith(ty + '::<')]
    if len(bs) > 1 and len(inherent) == 1:
        bs = inherent
    if len(bs) != 1:
        raise AnchorMissing('%s::%s (found %d)' % (ty, name, len(bs)))
    return bs[0]


def flag_stores(b, value=None):
    out = []
    for (i, si, st) in b.assigns(lambda st: st['lhs']['p'] and isinstance(st['lhs']['p'][-1], dict)
                                 and st['lhs']['p'][-1].get('name') == 'is_valid_history'):
        rv = st['rv']
        if rv['k'] == 'use' and rv['op']['k'] == 'const' and 'val' in rv['op']:
            if value is None or rv['op']['val'] == value:
                out.append(i)
        elif value is None:
            out.append(i)
    # ... or through a reference to just that field (a closure that captured it)
    for (i, si, st) in b.assigns(lambda st: st['lhs']['p'] == ['deref']):
        v = b.local_val(st['lhs']['l'])
        tail = [q for q in v.projs if q != 'deref']
        if len(tail) >= 2 and tail[-1] == 'ref' and tail[-2] == '.is_valid_history':
            rv = st['rv']
            if rv['k'] == 'use' and rv['op']['k'] == 'const' and 'val' in rv['op']:
                if value is None or rv['op']['val'] == value:
                    out.append(i)
            elif value is None:
                out.append(i)
    return out


def flag_tests(b):
    out = []
    for sw in b.switches:
        if sw.kind == 'bool' and noref(sw.on).fields()[-1:] == ('.is_valid_history',):
            out.append(sw)
    return out


def r1_sticky(ctx, F, ty, rule):
    short = ty.split('::')[-1]
    for name in ('on_invoke', 'on_return'):
        b = tester_fn(F, ty, name)
        ctx.touched(b)
        b = F.norm(b)       # (`.ok_or_else(|| { flag = false; format!(..) })?` marks the history in a closure)
        errs = [i for (i, si, st) in b.assigns(lambda st: st['lhs']['l'] == 0 and not st['lhs']['p'] and
                                                st['rv']['k'] == 'agg' and st['rv'].get('variant') == 'Err')]
        oks = [i for (i, si, st) in b.assigns(lambda st: st['lhs']['l'] == 0 and not st['lhs']['p'] and
                                               st['rv']['k'] == 'agg' and st['rv'].get('variant') == 'Ok')]
        tests = flag_tests(b)
        inval = flag_stores(b, 0)
        fe = [e for sw in tests for e in sw.edges_for(False)]
        bad = []
        for e_ in errs:
            dominated_by_false = fe and b.edges_dominate(fe, e_)
            after_store = any(b.dominates(s_, e_) for s_ in inval)
            if not (dominated_by_false or after_store):
                bad.append(e_)
        ctx.check(len(errs) >= 2 and not bad, rule, '%s-errors-are-sticky' % name, b,
                  good='every Err of %s is either caused by an already invalid history or marks it invalid' % name,
                  bad='%s::%s can return Err without the history having been (or being) marked invalid: a later '
                      'is_consistent() reports an ill-formed history as consistent' % (short, name))
        # the flag test comes first: no mutation of the recorded history before it
        first_ok = bool(tests) and all(b.dominates(tests[0].bb, c.bb) for c in b.calls
                                       if c.is_('BTreeMap::entry', 'BTreeMap::remove', 'BTreeMap::insert',
                                                'VecDeque::push_back', 'Entry::or_insert'))
        ctx.check(first_ok, rule, '%s-rejects-before-recording' % name, b,
                  good='an invalid history is rejected before anything is recorded',
                  bad='%s::%s touches the recorded history before testing is_valid_history' % (short, name))
        ctx.check(bool(oks) and not any(b.dominates(s_, o) for s_ in inval for o in oks), rule,
                  '%s-ok-path-keeps-valid' % name, b,
                  good='the Ok path does not invalidate the history',
                  bad='%s::%s invalidates the history on its Ok path' % (short, name))
    # only `new` sets the flag to true
    setters = []
    for x in F.bodies.values():
        if ty in x.path:
            if flag_stores(x, 1):
                setters.append(x.path)
            for (i, si, st) in x.assigns(lambda st: st['rv']['k'] == 'agg' and st['rv'].get('adt') == ty):
                names = st['rv']['fields']
                if 'is_valid_history' in names:
                    v = x.val(st['rv']['ops'][names.index('is_valid_history')])
                    if v.kind == 'const' and v.key == 1:
                        setters.append(x.path)
    ok = bool(setters) and all(p.endswith('::new') or 'Clone' in p or 'Default' in p for p in setters)
    ctx.check(ok, rule, 'only-new-validates', ty,
              good='is_valid_history becomes true only in new()',
              bad='%s: is_valid_history is set to true outside new(): %s - an ill-formed history can become '
                  'valid again' % (short, [p for p in setters if not p.endswith('::new')]))
    # is_consistent(): the verdict of serialized_history() on every path - the only reader of the
    # validity flag - or `false` behind a failed flag test; never a shortcut to `true`
    ic = tester_fn(F, ty, 'is_consistent')
    ctx.touched(ic)
    shc = [c.bb for c in ic.calls if c.short.endswith('::serialized_history')]
    rejects = [e[1] for sw in flag_tests(ic) for e in sw.edges_for(False)]
    r = ic.reach([0], cut_blocks=shc + rejects)
    ctx.check(bool(shc) and not any(x in r for x in ic.returns), rule, 'is_consistent-consults-validity', ic,
              good='every path of is_consistent goes through serialized_history() (or a failed validity test)',
              bad='%s::is_consistent can return without consulting serialized_history() / is_valid_history: an '
                  'ill-formed history (rejected with Err earlier) is reported as consistent on that path' % short)
    sh = tester_fn(F, ty, 'serialized_history')
    ctx.touched(sh)
    tests = flag_tests(sh)
    sc = [c for c in sh.calls if c.short.endswith('::serialize')]
    ok = len(tests) == 1 and len(sc) == 1 and sh.edges_dominate(tests[0].edges_for(True), sc[0].bb)
    nones = [i for (i, si, st) in sh.assigns(lambda st: st['lhs']['l'] == 0 and st['rv']['k'] == 'agg'
                                             and st['rv'].get('variant') == 'None')]
    if ok:
        r = sh.reach([e[1] for e in tests[0].edges_for(False)], cut_blocks=nones)
        ok = bool(nones) and not any(x in r for x in sh.returns)
    ctx.check(ok, rule, 'invalid-history-has-no-serialization', sh,
              good='serialized_history() returns None for an invalid history and searches only valid ones',
              bad='%s::serialized_history searches (or returns Some for) a history marked invalid' % short)
    ic = tester_fn(F, ty, 'is_consistent')
    c1 = [c for c in ic.calls if c.short.endswith('::serialized_history')]
    c2 = ic.calls_to('Option::is_some')
    ctx.check(len(c1) == 1 and len(c2) == 1, rule, 'is_consistent-is-some-serialization', ic,
              good='is_consistent() = serialized_history().is_some()',
              bad='%s::is_consistent is not serialized_history().is_some()' % short)


def closure_signature(cl):
    """order-insensitive structural signature of a closure body: callees, comparison operators and
    the constants it returns"""
    sig = Counter()
    for c in cl.calls:
        sig['call:' + c.short.split('::')[-1]] += 1
    for (i, si, st) in cl.assigns():
        rv = st['rv']
        if rv['k'] == 'bin':
            sig['bin:' + rv['op']] += 1
        if st['lhs']['l'] == 0 and rv['k'] == 'use' and rv['op']['k'] == 'const' and 'val' in rv['op']:
            sig['ret:%s' % rv['op']['val']] += 1
    for c in cl.calls:
        if c.is_('PartialOrd::le', 'PartialOrd::lt', 'PartialOrd::ge', 'PartialOrd::gt', 'PartialEq::eq', 'PartialEq::ne'):
            # operand roles: which closure parameter field is on which side
            roles = []
            for a in c.args[:2]:
                v = noref(cl.val(a))
                roles.append('%s:%s%s' % (v.kind, v.key if v.kind == 'arg' else '', ''.join(v.fields())))
            sig['cmp:%s(%s)' % (c.short.split('::')[-1], ','.join(roles))] += 1
    return sig


def depends_on_args(b, v, depth=0, seen=None):
    """parameters a value is (transitively) computed from: through aggregates, call arguments,
    binary operands and values captured by closures"""
    if seen is None:
        seen = set()
    out = set()
    if depth > 12 or v is None:
        return out
    key = repr(v)
    if key in seen:
        return out
    seen.add(key)
    if v.kind == 'arg':
        out.add(v.key)
    elif v.kind == 'agg':
        for o in v.key[3]:
            out |= depends_on_args(b, o, depth + 1, seen)
    elif v.kind == 'bin':
        for o in v.key[1:]:
            out |= depends_on_args(b, o, depth + 1, seen)
    elif v.kind == 'un':
        out |= depends_on_args(b, v.key[1], depth + 1, seen)
    elif v.kind == 'discr':
        out |= depends_on_args(b, v.key, depth + 1, seen)
    elif v.kind == 'call':
        c = b.call_at(v.key)
        if c is not None:
            for a in c.args:
                out |= depends_on_args(b, b.val(a), depth + 1, seen)
    elif v.kind == 'local':
        for d in b.defs.get(v.key, []):
            if d[1] == 'call':
                out |= depends_on_args(b, V('call', d[0]), depth + 1, seen)
            elif d[2]['rv']['k'] == 'use':
                out |= depends_on_args(b, b.val(d[2]['rv']['op']), depth + 1, seen)
    return out


def search_is_pure_or_memo_complete(ctx, F, ty, rule):
    """The verdict of the recursive search may depend only on its arguments. A `&mut` parameter is
    state shared across sibling branches (a memo): then every key stored/looked up must be computed
    from ALL the inputs that can differ between two calls (object state, remaining history, in-flight
    operations)."""
    short = ty.split('::')[-1]
    b = tester_fn(F, ty, 'serialize')
    inputs = {}
    muts = []
    for i in range(1, b.arg_count + 1):
        t = b.locals[i]['ty']
        if t.startswith('&mut '):
            muts.append(i)
        elif t.startswith('&'):
            inputs[i] = t
    if not muts:
        ctx.ok(rule, 'search-is-pure', b, 'serialize takes no &mut parameter: sibling branches share no state')
        return
    for m in muts:
        uses = [c for c in b.calls if c.args and noref(b.val(c.args[0])) == V('arg', m) and
                c.is_('BTreeSet::insert', 'BTreeSet::contains', 'HashSet::insert', 'HashSet::contains',
                      'BTreeMap::insert', 'BTreeMap::get', 'BTreeMap::contains_key', 'HashMap::insert', 'HashMap::get',
                      'HashMap::contains_key', 'Vec::push', 'Vec::contains', 'slice::contains')]
        if not uses:
            ctx.bad(rule, 'shared-state:arg%d' % m, b,
                    '%s::serialize threads a `&mut` parameter (%s) through the recursion whose use the rule '
                    'cannot read: sibling branches may influence each other' % (short, b.locals[m]['ty'][:60]))
            continue
        for c in uses:
            deps = depends_on_args(b, b.val(c.args[1])) if len(c.args) > 1 else set()
            missing = [i for i in inputs if i not in deps]
            ctx.check(not missing, rule, 'memo-key-complete@%s' % c.short.split('::')[-1], b,
                      good='the memo key depends on every by-reference input of the search',
                      bad='%s::serialize keeps state across sibling branches in parameter %d (%s) under a key '
                          'that does not depend on parameter(s) %s (%s): two search states that differ there are '
                          'confused, so a branch is pruned because a DIFFERENT state was a dead end' %
                          (short, m, b.locals[m]['ty'][:50], missing,
                           [b.debug_name(i) for i in missing]), span=c.span)


def candidates_are_independent(ctx, F, ty, rule):
    """Backtracking tries every thread's next operation at every position; whether one candidate is tried may
    not depend on what happened to another candidate at the same position. So the loop over the threads carries
    no user variable from one turn into the next (a flag like `progressed`, a spare clone of the reference
    object, a counter): dataflow over the loop body, see common.loop_carried_user_locals."""
    from common import loop_carried_user_locals
    short = ty.split('::')[-1]
    b = tester_fn(F, ty, 'serialize')
    # the thread loop: the outermost loop of the un-normalised body (in normal form the `all(..)` of the done
    # test is a loop of its own in front of it)
    loop = [c for c in b.calls_to('Iterator::next') if b.in_cycle(c.bb)]
    if not loop:
        raise AnchorMissing('%s::serialize: thread loop' % short)
    head = loop[0]
    for c in loop:
        if b.dominates(c.bb, head.bb):
            head = c
    carried = loop_carried_user_locals(b, head)
    nb = F.norm(b)
    if nb is not b:
        for h in nb.calls_to('Iterator::next'):
            if nb.in_cycle(h.bb) and h.span == head.span:
                carried += loop_carried_user_locals(nb, h)
    ctx.check(not carried, rule, 'candidates-independent', b,
              good='the loop over the candidate threads carries no variable from one candidate to the next',
              bad='%s::serialize: variable(s) %s carry a value from one candidate of the thread loop to the next: whether '
                  'a candidate is tried (or what it starts from) depends on its siblings, so orders that need the '
                  'skipped candidate first are never explored / a rejected candidate leaks state' %
                  (short, sorted(set(n for (l, n, i) in carried))))


def search_skeleton(ctx, F, ty, rule, lin):
    short = ty.split('::')[-1]
    b = tester_fn(F, ty, 'serialize')
    ctx.touched(b)
    # done test first
    alls = b.calls_to('Iterator::all')
    loop = [c for c in b.calls_to('Iterator::next') if b.in_cycle(c.bb)]
    if len(alls) != 1 or not loop:
        raise AnchorMissing('%s::serialize: done test / thread loop' % short)
    head = loop[0]
    for c in loop:
        if b.dominates(c.bb, head.bb):
            head = c
    ctx.check(b.dominates(alls[0].bb, head.bb), rule, 'done-before-branching', b,
              good='completion is tested before any branch is tried',
              bad='%s::serialize tries branches before testing whether everything is already serialized' % short)
    te = b.branch(alls[0], True)
    somes = [i for (i, si, st) in b.assigns(lambda st: st['lhs']['l'] == 0 and st['rv']['k'] == 'agg'
                                            and st['rv'].get('variant') == 'Some')]
    ok = bool(te) and any(b.edges_dominate(te, i) for i in somes)
    ctx.check(ok, rule, 'done-returns-collected-order', b,
              good='when nothing remains the collected total order is returned',
              bad='%s::serialize does not return the collected order when nothing remains' % short)
    some_e = b.branch(head, 'Some')
    body = b.reach([e[1] for e in some_e], cut_blocks=[head.bb])
    # case split on remaining_history.is_empty()
    emp = [c for c in b.calls_to('VecDeque::is_empty') if c.bb in body]
    if len(emp) != 1:
        raise AnchorMissing('%s::serialize: remaining_history.is_empty() case split' % short)
    e_true, e_false = b.branch(emp[0], True), b.branch(emp[0], False)
    inv = [c for c in b.calls_to('SequentialSpec::invoke') if c.bb in body]
    ivs = [c for c in b.calls_to('SequentialSpec::is_valid_step') if c.bb in body]
    ok = len(inv) == 1 and len(ivs) == 1 and b.edges_dominate(e_true, inv[0].bb, frm=[emp[0].bb]) and \
        b.edges_dominate(e_false, ivs[0].bb, frm=[emp[0].bb])
    ctx.check(ok, rule, 'in-flight-only-when-queue-empty', b,
              good='an in-flight operation is applied (invoke) only when the thread has no completed operation '
                   'left; completed operations are validated with is_valid_step',
              bad='%s::serialize does not apply invoke exactly in the "no completed operation left" case and '
                  'is_valid_step in the other: an in-flight operation can overtake a completed one of its own '
                  'thread (program order broken)' % short)
    if ivs:
        fe = b.branch(ivs[0], False)
        rec = [c for c in b.calls if c.short.endswith('::serialize') and c.bb in body]
        r = b.reach([e[1] for e in fe], cut_blocks=[head.bb])
        ok = bool(fe) and bool(rec) and not any(c.bb in r for c in rec)
        ctx.check(ok, rule, 'illegal-step-is-pruned', b,
                  good='a completed operation whose recorded return is illegal for the spec prunes the branch',
                  bad='%s::serialize continues a branch although is_valid_step returned false' % short)
    # every candidate is judged on a copy of the reference object as it was handed to this search level - made
    # for this candidate alone (a copy that an earlier, rejected candidate has already worked on is not that)
    from taint import origins
    for c in inv + ivs:
        org = origins(b, c.args[0])
        fresh = bool(org)
        for o in org:
            if isinstance(o, (str, tuple)) or not o.is_('Clone::clone'):
                fresh = False
                continue
            src = origins(b, o.args[0])
            if not src or not all(isinstance(x, tuple) and x[0] == 'arg' for x in src):
                fresh = False
        ctx.check(fresh, rule, 'fresh-reference-object@%s' % c.short.split('::')[-1], b,
                  good='%s works on a clone of the reference object passed to this search level' % c.short.split('::')[-1],
                  bad='%s::serialize applies %s to an object that is not a fresh clone of the reference object of this '
                      'search level (%s): a candidate is judged against a state left behind by an earlier, rejected '
                      'candidate' % (short, c.short.split('::')[-1], sorted(repr(o) for o in org)), span=c.span)
    # in-flight must be present: contains_key guard
    ck = [c for c in b.calls_to('BTreeMap::contains_key') if c.bb in body]
    if inv:
        ok = len(ck) == 1 and b.edges_dominate(b.branch(ck[0], True), inv[0].bb, frm=[ck[0].bb])
        if not ok:
            # ... or by looking the entry up: `let Some(..) = in_flight.get(thread) else { continue }`, or taking
            # it out and testing the result
            for g in [c for c in b.calls_to('BTreeMap::get', 'BTreeMap::remove', 'BTreeMap::get_mut') if c.bb in body]:
                se = b.branch(g, 'Some')
                if se and b.edges_dominate(se, inv[0].bb):
                    ok = True
        ctx.check(ok, rule, 'in-flight-branch-needs-in-flight-op', b,
                  good='the in-flight branch is taken only when the thread has an operation in flight',
                  bad='%s::serialize takes the in-flight branch without checking that an operation is in flight' % short)
    # backtracking hygiene: every working copy mutated through Cow::to_mut is created inside the iteration
    tm = [c for c in b.calls_to('Cow::to_mut') if c.bb in body]
    if len(tm) < 2:
        raise AnchorMissing('%s::serialize: working copies (Cow::to_mut)' % short)
    for c in tm:
        v = b.val(c.args[0])
        root = noref(v)
        created_in = None
        for (i, si, st) in b.assigns(lambda st: st['rv']['k'] == 'agg' and st['rv'].get('adt') == 'std::borrow::Cow'):
            if noref(b.val({'k': 'copy', 'place': st['lhs']})) == root:
                created_in = i
        ok = created_in is not None and created_in in body and b.edges_dominate(some_e, created_in)
        what = 'in-flight map' if 'contains_key' in ''.join(x.short for x in b.calls if x.bb == c.target) or \
            any(x.is_('BTreeMap::remove') and x.bb in b.reach([c.target], cut_blocks=[head.bb]) and
                b.val(x.args[0]).kind == 'call' and b.val(x.args[0]).key == c.bb for x in b.calls) else 'history map'
        ctx.check(ok, rule, 'fresh-working-copy@%s' % c.span.split(':')[-1], b,
                  good='the working copy mutated at %s is created afresh for every branch' % c.span,
                  bad='%s::serialize mutates a working copy (%s, to_mut at %s) that is created outside the '
                      'per-thread iteration: removals made while exploring one branch are still in effect when '
                      'the sibling branches are tried, so some legal orders are never explored' %
                      (short, what, c.span), span=c.span)
    # recursion continues with the extended order and the modified copies
    rec = [c for c in b.calls if c.short.endswith('::serialize') and c.bb in body]
    ok = len(rec) == 1
    if ok:
        a2 = noref(b.trace(b.val(rec[0].args[2]), ('Deref::deref',)))
        a3 = noref(b.trace(b.val(rec[0].args[3]), ('Deref::deref',)))
        ok = a2.kind == 'agg' and a3.kind == 'agg' and a2 != a3
    ctx.check(ok, rule, 'recursion-uses-branch-copies', b,
              good='the recursive call continues with this branch\'s working copies',
              bad='%s::serialize does not recurse on the branch\'s own working copies' % short)
    # real-time precedence tests: boolean tests in the iteration whose TRUE edge prunes the branch
    rt = []
    for c in b.calls:
        if c.bb not in body or b.locals[c.dest['l']]['ty'] != 'bool' or c.dest['p']:
            continue
        if c.is_('VecDeque::is_empty', 'BTreeMap::contains_key', 'SequentialSpec::is_valid_step', 'Iterator::all'):
            continue
        te_ = b.branch(c, True)
        if not te_:
            continue
        r = b.reach([e[1] for e in te_], cut_blocks=[head.bb])
        if head.bb in b.reach([e[1] for e in te_]) and not any(x.bb in r for x in rec + inv + ivs):
            rt.append(c)
    if not lin:
        ctx.check(not rt, rule, 'no-real-time-pruning', b,
                  good='the SC search has no real-time pruning',
                  bad='%s::serialize prunes branches with an extra test (%s): sequentially consistent '
                      'histories can be rejected' % (short, [c.short for c in rt]))
        return b
    if len(rt) != 2:
        raise AnchorMissing('%s::serialize: expected one real-time precedence test per case, found %d' % (short, len(rt)))
    cases = {'in-flight': [c for c in rt if b.edges_dominate(e_true, c.bb, frm=[emp[0].bb])],
             'completed': [c for c in rt if b.edges_dominate(e_false, c.bb, frm=[emp[0].bb])]}
    ctx.check(len(cases['in-flight']) == 1 and len(cases['completed']) == 1, rule, 'real-time-test-in-both-cases', b,
              good='both the in-flight and the completed case test real-time precedence before applying the operation',
              bad='%s::serialize does not test real-time precedence in both cases (in-flight: %d, completed: %d): '
                  'an operation can be ordered before a peer operation that had already returned when it was '
                  'invoked' % (short, len(cases['in-flight']), len(cases['completed'])))
    # each test precedes the application of its operation
    for name, cs_, app in (('in-flight', cases['in-flight'], inv), ('completed', cases['completed'], ivs)):
        for c in cs_:
            ok = bool(app) and b.dominates(c.bb, app[0].bb)
            ctx.check(ok, rule, 'real-time-before-apply@' + name, b,
                      good='the %s case tests precedence before the operation is applied' % name,
                      bad='%s::serialize applies the %s operation before/without the precedence test' % (short, name))

    def predicate(c):
        """(kind, bodies) of the predicate evaluated by test call c"""
        if c.is_('Iterator::any'):
            cv = b.val(c.args[1])
            if cv.kind == 'agg' and cv.key[0] == 'closure':
                cl = F.bodies[cv.key[1]]
                return 'any', c.callee, [cl] + F.closures_under(cl)
            return 'any', c.callee, []
        hb = F.bodies.get(c.callee)
        if hb is not None:
            return 'helper', c.callee, [hb] + F.closures_under(hb)
        return 'other', c.callee, []
    preds = [predicate(c) for c in rt]
    # quantifier: existential over ALL peers - built on Iterator::any, never on a first-match combinator
    for (kind, callee, bodies), c in zip(preds, rt):
        quant_ok = kind == 'any'
        firsts = []
        if kind == 'helper':
            hb = bodies[0]
            # the combinator applied to the iteration over the pre-req map (a BTreeMap parameter)
            its = [x for x in hb.calls_to('BTreeMap::iter', 'IntoIterator::into_iter', 'BTreeMap::keys', 'BTreeMap::values')
                   if noref(hb.val(x.args[0])).kind == 'arg']
            consumers = [x for x in hb.calls if x.args and x.args[0]['k'] in ('move', 'copy') and
                         any(noref(hb.trace(hb.val(x.args[0]), ())) == V('call', it.bb) for it in its)]
            firsts = [x for x in consumers if not x.is_('Iterator::any')]
            quant_ok = bool(consumers) and not firsts
        ctx.check(quant_ok, rule, 'real-time-test-quantifies-over-all-peers@%s' % c.span.split(':')[-1], b,
                  good='the precedence test is an `any` over all peers recorded at invocation',
                  bad='%s::serialize: the real-time precedence test (%s) is not an `any` over every peer recorded '
                      'at invocation (first-match combinators: %s): a violation on a later peer is missed once an '
                      'earlier peer gives a verdict' % (short, callee.split('::')[-1],
                                                         [x.short.split('::')[-1] for x in firsts]), span=c.span)
    # agreement of the two tests
    if preds[0][0] == 'helper' and preds[1][0] == 'helper' and preds[0][1] == preds[1][1]:
        ctx.ok(rule, 'real-time-tests-agree', b, 'both cases call the same helper %s' % preds[0][1])
    else:
        def sig_of(p_):
            tot = Counter()
            for y in p_[2]:
                if y.kind == 'Closure':
                    tot += closure_signature(y)
            return tot
        s0, s1 = sig_of(preds[0]), sig_of(preds[1])
        ctx.check(s0 == s1 and bool(s0), rule, 'real-time-tests-agree', b,
                  good='the real-time precedence test is the same for in-flight and completed operations',
                  bad='%s::serialize: the real-time precedence test of the in-flight case and of the completed '
                      'case differ (%s vs %s): the two cases disagree about which peer operations must already '
                      'have been serialized' % (short, dict(s0 - s1), dict(s1 - s0)))
    return b


def snapshot_covers_every_peer(ctx, F, ty, rule):
    """on_invoke records, for the invoked operation, the last completed operation of EVERY other thread that has
    one: which peers are skipped does not depend on what is in flight (a peer that is mid-operation still has
    completed operations that precede the new one in real time)."""
    from taint import Taint
    short = ty.split('::')[-1]
    b = tester_fn(F, ty, 'on_invoke')
    nb = F.norm(b)
    ctx.touched(b)
    ITER = ('BTreeMap::iter', 'BTreeMap::keys', 'BTreeMap::values', 'IntoIterator::into_iter', 'Iterator::enumerate',
            'Iterator::by_ref', 'Deref::deref', 'BTreeMap::iter_mut', 'BTreeMap::range', 'Iterator::map',
            'Iterator::filter', 'Iterator::filter_map', 'Iterator::rev', 'Iterator::peekable')
    heads = []
    for c in nb.calls_to('Iterator::next'):
        if nb.in_cycle(c.bb) and c.args and 'history_by_thread' in repr(nb.trace(noref_(nb.val(c.args[0])), ITER)):
            heads.append(c)
    if len(heads) != 1:
        raise AnchorMissing('%s::on_invoke: expected one walk over history_by_thread, found %d' % (short, len(heads)))
    h = heads[0]
    some = nb.branch(h, 'Some')
    body = nb.reach([e[1] for e in some], cut_blocks=[h.bb])
    body = set(x for x in body if h.bb in nb.reach([x]))
    seeds = {}
    for (i, si, st) in nb.assigns(lambda st: st['rv']['k'] in ('ref', 'use')):
        pl = st['rv']['place'] if st['rv']['k'] == 'ref' else st['rv']['op'].get('place')
        if pl and any(isinstance(e, dict) and e.get('name') == 'in_flight_by_thread' for e in pl['p']):
            seeds.setdefault(st['lhs']['l'], set()).add('IF')
    if not seeds:
        raise AnchorMissing('%s::on_invoke: no access to in_flight_by_thread found' % short)
    t = Taint(nb, seeds)
    bad = []
    for c in nb.calls:
        if c.bb in body and c is not h:
            for a in c.args:
                if a['k'] in ('copy', 'move') and 'IF' in t.seen(a['place']['l'], c.bb):
                    bad.append('%s@%s' % (c.short.split('::')[-1], c.span))
    # ... and a switch of the walk does not test a flag computed from it either
    for sw in nb.switches:
        d = nb.blocks[sw.bb]['term'].get('discr', {})
        if sw.bb in body and d.get('k') in ('copy', 'move') and 'IF' in t.seen(d['place']['l'], sw.bb):
            bad.append('test@bb%d' % sw.bb)
    ctx.check(not bad, rule, 'snapshot-covers-every-peer', b,
              good='which peers enter the "last completed operation" snapshot does not depend on the operations in '
                   'flight',
              bad='%s::on_invoke consults the in-flight operations inside the walk that snapshots the peers\' last '
                  'completed operations (%s): a peer that is mid-operation is left out although its completed '
                  'operations precede the new one in real time - the search may then order the new operation before '
                  'them and accept a history that is not linearizable' % (short, sorted(set(bad))), span=h.span)


def invret_is_invoke_then_return(ctx, F, ty, rule):
    """on_invret (the tester's own, or the trait default when it has none) is on_invoke followed by on_return: it
    takes no road around the well-formedness tests the two make (operation already in flight, history invalid)."""
    short = ty.split('::')[-1]
    own = [x for x in F.bodies.values() if x.kind != 'Closure' and x.path.endswith('::on_invret') and
           (x.path.startswith(ty + '::<') or x.path.startswith('<' + ty + '<'))]
    dflt = [x for x in F.bodies.values() if x.kind != 'Closure' and
            x.path.endswith('ConsistencyTester::on_invret') and not x.path.startswith('<')]
    bs = own or dflt
    if len(bs) != 1:
        raise AnchorMissing('%s::on_invret or the default ConsistencyTester::on_invret (found %d)' % (short, len(bs)))
    b = bs[0]
    nb = F.norm(b)
    ctx.touched(b)
    inv = [c for c in nb.calls if c.short.endswith('::on_invoke')]
    ret = [c for c in nb.calls if c.short.endswith('::on_return')]
    ok = bool(inv) and bool(ret)
    if ok:
        r0 = nb.reach([0], cut_blocks=[c.bb for c in inv])
        ok = not any(x in r0 for x in nb.returns)
    if ok:
        cont = []
        for c in inv:
            cont += nb.branch(c, 'Ok', through=('Try::branch',)) or nb.branch(c, 'Continue', through=('Try::branch',))
        if not cont:
            cont = [(c.bb, c.target) for c in inv]
            # without a test of on_invoke's verdict the return half runs unconditionally: still both halves
        r1 = nb.reach([e[1] for e in cont], cut_blocks=[c.bb for c in ret])
        ok = not any(x in r1 for x in nb.returns)
    ctx.check(ok, rule, 'invret-is-invoke-then-return', b,
              good='on_invret (%s) goes through on_invoke and, when that accepted, through on_return'
                   % ('own' if own else 'trait default'),
              bad='%s: on_invret records an operation without going through on_invoke and on_return: their '
                  'well-formedness tests (operation already in flight for the thread, history already invalid) are '
                  'bypassed, so an ill-formed history is accepted and a consistency verdict is given for it' % short)
