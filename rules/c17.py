"""C17 - spawned actors over UDP: structural clauses of actor::spawn."""
import re

from actor_rules import noref
from common import bodies_with_closures, outer_val
from mir import AnchorMissing, V

LEVEL_TEXT = (
    'Static rules over actor::spawn: on_start is called once, before and outside the event loop; all '
    'handlers receive &mut of the one state local; on_msg is reached only behind deserialize=Ok and a '
    'V4 source, with Id::from(source address) and the deserialised message; a Send command whose '
    'serialisation succeeded performs exactly one send_to to SocketAddrV4::from(dst); timer/random '
    'handlers run only when the earliest deadline has passed and after its entry was removed; SetTimer '
    'overwrites the deadline with now + d on both the vacant and the occupied path (d from the range '
    'or its start), CancelTimer never creates an entry; the Id <-> SocketAddrV4 byte tables are '
    'inverse permutations with matching endianness. OS timing, datagram loss and real sockets are out '
    'of scope.')

FLOORS = {'C17-R1': 3, 'C17-R2': 1, 'C17-R3': 4, 'C17-R4': 2, 'C17-R5': 8, 'C17-R6': 4}

HANDLERS = ('Actor::on_msg', 'Actor::on_timeout', 'Actor::on_random')


def thread_body(F):
    bs = [x for x in F.bodies.values() if x.kind == 'Closure' and x.path.startswith('actor::spawn::spawn::')
          and x.calls_to('Actor::on_start')]
    if len(bs) != 1:
        raise AnchorMissing('actor::spawn: per-actor thread closure (found %d)' % len(bs))
    return bs[0]


def r1_r2_r3_r5a(ctx, F):
    b = thread_body(F)
    ctx.touched(b)
    st = b.calls_to('Actor::on_start')
    hs = [c for c in b.calls if c.is_(*HANDLERS)]
    if len(st) != 1 or len(hs) < 3:
        raise AnchorMissing('spawn thread: on_start (%d) / handlers (%d)' % (len(st), len(hs)))
    ok = not b.in_cycle(st[0].bb) and all(b.dominates(st[0].bb, h.bb) for h in hs)
    ctx.check(ok, 'C17-R1', 'on_start-once-before-loop', b,
              good='on_start runs once, outside the event loop, before any other handler',
              bad='actor::spawn: on_start is inside the event loop or does not precede every other handler')
    # start commands are executed before the loop
    oc = [c for c in b.calls if c.short.endswith('spawn::on_command')]
    after_handlers = b.reach([h.bb for h in hs])
    ok = any(c.bb in b.reach([st[0].bb]) and c.bb not in after_handlers for c in oc)
    ctx.check(ok and len(oc) >= 2, 'C17-R1', 'start-commands-executed', b,
              good='the commands emitted by on_start are executed before the event loop',
              bad='actor::spawn: commands emitted by on_start are not executed before the first event')
    # one event per turn: after a handler has run, its commands are applied (and the earliest
    # deadline is looked up afresh) before any handler runs again
    apply_heads = []
    for c in oc:
        hd = [x for x in b.calls_to('Iterator::next') if b.in_cycle(x.bb) and b.dominates(x.bb, c.bb)]
        if hd:
            apply_heads.append(max(hd, key=lambda x: len([1 for y in hd if b.dominates(y.bb, x.bb)])).bb)
    again = []
    for h in hs:
        r = b.reach([h.target], cut_blocks=apply_heads) if h.target is not None else set()
        again += [h2 for h2 in hs if h2.bb in r]
    ctx.check(bool(apply_heads) and not again, 'C17-R5', 'one-event-per-turn', b,
              good='between two handler calls the commands of the first are applied',
              bad='actor::spawn: a second handler (%s) can run before the commands of the previous one were '
                  'applied: a timer that the first handler cancels or re-arms still fires from a stale snapshot' %
                  sorted(set(h2.short.split('::')[-1] + '@' + h2.span.split(':')[-1] for h2 in again)))
    # the actor listens on exactly the address its Id encodes (its datagrams also leave from there, so the
    # peer's on_msg sees this actor's Id as src)
    from common import capture_origin
    binds = b.calls_to('UdpSocket::bind')
    okb = len(binds) == 1
    if okb:
        pb_, pv_ = capture_origin(F, b, b.val(binds[0].args[0]), through=('Clone::clone',))
        pc_ = pb_.call_at(pv_.key) if pv_.kind == 'call' and not pv_.projs else None
        from common import converts
        okb = converts(pc_, 'Id', 'SocketAddrV4')
    ctx.check(okb, 'C17-R1', 'binds-own-address', b,
              good='the socket is bound to SocketAddrV4::from(id)',
              bad='actor::spawn: the actor\'s socket is not bound to the address its Id encodes (SocketAddrV4::from(id)): '
                  'on_msg runs for datagrams that were not sent to this actor\'s address, and the src its peers see is '
                  'not its Id')
    # R2 state threading
    roots = set()
    for h in hs:
        roots.add(repr(noref(b.val(h.args[2]))))
    sv = noref(b.val(hs[0].args[2]))
    ok = len(roots) == 1
    if ok:
        # the state value is Cow::Owned(on_start(..)) and never re-assigned in the loop
        ok = sv.kind == 'agg' and sv.key[2] == 'Owned' and sv.key[3] and sv.key[3][0].kind == 'call' and \
            sv.key[3][0].key == st[0].bb
    ctx.check(ok, 'C17-R2', 'one-state-threaded', b,
              good='every handler gets &mut of the single state initialised from on_start',
              bad='actor::spawn: handlers do not all work on the one state value produced by on_start '
                  '(state roots: %s)' % sorted(roots))
    # R3 receive path
    om = [h for h in hs if h.is_('Actor::on_msg')][0]
    des = [c for c in b.indirect_calls() if noref(b.val(c.fnptr)).kind == 'arg' or True]
    des = []
    for c in b.indirect_calls():
        ob, ov = outer_val(F, b, b.val(c.fnptr))
        dty = b.locals[c.dest['l']]['ty']
        # the decoder is the fn-pointer parameter of spawn() that turns bytes into Result<Msg, _> (the call may
        # sit in a helper that was given the pointer: its result type is then spelled with the helper's generics)
        from_param = ov.kind == 'arg' and not ov.projs and 'fn(&' in ob.locals[ov.key]['ty'] and \
            '[u8]) -> std::result::Result<<A as actor::Actor>::Msg' in ob.locals[ov.key]['ty']
        if c.args and dty.startswith('std::result::Result<') and \
                (dty.startswith('std::result::Result<<A as actor::Actor>::Msg') or from_param):
            des.append(c)
    if len(des) != 1:
        raise AnchorMissing('spawn thread: deserialize call (found %d)' % len(des))
    oke = b.branch(des[0], 'Ok')
    ok = bool(oke) and b.edges_dominate(oke, om.bb)
    ctx.check(ok, 'C17-R3', 'on_msg-only-after-deserialize-ok', b,
              good='on_msg is reached only when deserialize returned Ok',
              bad='actor::spawn: on_msg can be called although the datagram did not deserialise')
    from taint import vals_of
    mv = noref(b.val(om.args[4]))
    mvs = set(noref(x) for x in vals_of(b, mv))
    ctx.check(mvs == {V('call', des[0].bb, ('as Ok', '.0'))}, 'C17-R3', 'msg-is-deserialised-value', b,
              good='on_msg receives the deserialised message',
              bad='actor::spawn: on_msg receives %r, not the deserialised datagram' % mv)
    rf = b.calls_to('UdpSocket::recv_from')
    srcvs = set(noref(x) for x in vals_of(b, noref(b.val(om.args[3]))))
    ok = bool(srcvs) and len(rf) == 1
    for srcv in srcvs:
        fc = b.call_at(srcv.key) if srcv.kind == 'call' and not srcv.fields() else None
        if fc is None or not fc.is_('From::from', 'Into::into'):
            ok = False
            continue
        avs = set(noref(x) for x in vals_of(b, noref(b.val(fc.args[0]))))
        ok = ok and bool(avs) and all(a.kind == 'call' and a.key == rf[0].bb and 'as V4' in a.projs for a in avs)
    ctx.check(ok, 'C17-R3', 'src-is-sender-address', b,
              good='src = Id::from(V4 address returned by recv_from)',
              bad='actor::spawn: the src handed to on_msg is not Id::from(the datagram\'s IPv4 source address)')
    # bytes handed to deserialize are the received prefix of the buffer: `&in_buf[..count]` with the buffer that
    # recv_from filled and the count it returned - not trimmed, re-sliced or otherwise transformed on the way
    dv_ = noref(b.trace(b.val(des[0].args[0]), ('Deref::deref', 'AsRef::as_ref', 'Borrow::borrow')))
    ic_ = b.call_at(dv_.key) if dv_.kind == 'call' and not dv_.fields() else None
    okp = False
    if ic_ is not None and ic_.is_('Index::index', 'IndexMut::index_mut', 'slice::get_unchecked') and len(rf) == 1 and \
            len(ic_.args) == 2:
        bufv = noref(b.trace(b.val(ic_.args[0]), ('Deref::deref', 'DerefMut::deref_mut')))
        rbuf = noref(b.trace(b.val(rf[0].args[1]), ('Deref::deref', 'DerefMut::deref_mut', 'IndexMut::index_mut')))
        rng = b.val(ic_.args[1])
        ends = [noref(x) for x in (rng.key[3] if rng.kind == 'agg' and 'RangeTo' in str(rng.key[1]) else ())]
        cnt_ok = bool(ends) and all(
            all(y.kind == 'call' and y.key == rf[0].bb and 'as Ok' in y.projs and y.fields()[-1:] == ('.0',)
                for y in (noref(z) for z in vals_of(b, e_))) for e_ in ends)
        okp = bufv == rbuf and cnt_ok
    ctx.check(okp, 'C17-R3', 'deserialize-gets-the-received-bytes', b,
              good='deserialize is handed exactly the bytes recv_from wrote: &buffer[..count]',
              bad='actor::spawn: deserialize is not handed exactly the received datagram (&in_buf[..count] of the buffer '
                  'and count of recv_from): the message on_msg gets is decoded from other bytes than the ones that '
                  'were sent')
    # R5a timers fire only after the deadline and after removal of the entry
    th = [h for h in hs if h.is_('Actor::on_timeout', 'Actor::on_random')]
    cds = b.calls_to('Instant::checked_duration_since')
    if len(cds) != 1:
        raise AnchorMissing('spawn thread: checked_duration_since')
    ne = b.branch(cds[0], 'None')
    se = b.branch(cds[0], 'Some')
    ok = bool(ne) and all(b.edges_dominate(ne, h.bb, frm=[cds[0].bb]) for h in th) and \
        b.edges_dominate(se, om.bb, frm=[cds[0].bb])
    ctx.check(ok, 'C17-R5', 'timer-handlers-only-after-deadline', b,
              good='on_timeout/on_random run only when the earliest deadline has passed; on_msg only while waiting',
              bad='actor::spawn: a timer/random handler can run although its deadline has not passed (not '
                  'guarded by checked_duration_since(now) == None)')
    rm = b.calls_to('HashMap::remove')
    ok = len(rm) == 1 and all(b.dominates(rm[0].bb, h.bb) for h in th)
    ctx.check(ok, 'C17-R5', 'fired-entry-removed-first', b,
              good='the fired entry is removed from next_interrupts before its handler runs',
              bad='actor::spawn: the fired timer is not removed before its handler runs: a handler that '
                  're-arms it is overwritten, or the timer fires again although cancelled')
    # the deadline compared is the minimum over next_interrupts
    mk = b.calls_to('Iterator::min_by_key', 'Iterator::min_by', 'Iterator::min')
    okmin = len(mk) == 1
    if not mk:
        # a hand-written minimum: a loop over the interrupts that keeps an entry when its Instant compares
        # below the best one so far
        from common import comparisons
        from taint import origins
        for (x_, y_, rel_, te_, fe_, bb_) in comparisons(b):
            cc = b.call_at(bb_)
            if cc is None or not cc.targs or 'Instant' not in cc.targs[0] or rel_ not in ('lt', 'le', 'gt', 'ge'):
                continue
            if not b.in_cycle(bb_):
                continue
            sides = [origins(b, a_) for a_ in cc.args[:2]]
            if any(s_ and all(isinstance(o, tuple) and o[0] == 'proj' and o[1].is_('Iterator::next') for o in s_)
                   for s_ in sides):
                okmin = True
    ctx.check(okmin, 'C17-R5', 'earliest-deadline-first', b,
              good='the next interrupt is the entry with the minimum deadline',
              bad='actor::spawn: the next interrupt is not chosen as the minimum deadline')
    # ... of the map as it is NOW: every round walks next_interrupts again before it looks at a deadline (a pick kept
    # from an earlier round may name a timer that was cancelled or re-armed since)
    walks = []
    for c in b.calls_to('HashMap::iter', 'HashMap::values', 'HashMap::keys', 'HashMap::iter_mut',
                        'IntoIterator::into_iter'):
        if not c.args:
            continue
        tys = ' '.join(c.targs or [])
        v_ = noref(b.trace(b.val(c.args[0]), ('Deref::deref',)))
        if v_.kind == 'local':
            tys += ' ' + b.locals[v_.key]['ty']
        elif v_.kind == 'call' and b.call_at(v_.key) is not None and not b.call_at(v_.key).dest['p']:
            tys += ' ' + b.locals[b.call_at(v_.key).dest['l']]['ty']
        if 'HashMap<' in tys and 'Instant' in tys:
            walks.append(c)
    if not walks:
        raise AnchorMissing('spawn thread: walk over next_interrupts')
    r_ = b.reach([e[1] for e in ne + se], cut_blocks=[c.bb for c in walks])
    ctx.check(cds[0].bb not in r_, 'C17-R5', 'earliest-deadline-recomputed-every-round', b,
              good='every round of the loop walks next_interrupts before it looks at a deadline',
              bad='actor::spawn: the loop can come back to the deadline test without having walked next_interrupts '
                  'again: the earliest interrupt is kept from an earlier round, so a timer that was cancelled (or '
                  're-armed later) since then still fires at its old deadline')


def arm_blocks(b, sw, variant):
    e = sw.edges_for(variant)
    return b.reach([x[1] for x in e]) if e else set()


def r4_r5b_on_command(ctx, F):
    b = F.one_body(r'^actor::spawn::on_command$', 'on_command')
    ctx.touched(b)
    sws = [sw for sw in b.switches if sw.kind == 'variant' and noref(sw.on) == V('arg', 2)]
    sws = [s_ for s_ in sws if not any(o is not s_ and b.dominates(o.bb, s_.bb) for o in sws)]
    if len(sws) != 1:
        raise AnchorMissing('on_command: match on command')
    sw = sws[0]
    # Send
    blocks = arm_blocks(b, sw, 'Send')
    ser = [c for c in b.indirect_calls() if c.bb in blocks]
    snd = [c for c in b.calls if c.bb in blocks and c.is_('UdpSocket::send_to')]
    if len(ser) != 1:
        raise AnchorMissing('on_command Send: serialize call')
    oke = b.branch(ser[0], 'Ok')
    r = b.reach([e[1] for e in oke], cut_blocks=[c.bb for c in snd])
    ok = len(snd) == 1 and bool(oke) and not any(x in r for x in b.returns) and not b.in_cycle(snd[0].bb) \
        and b.edges_dominate(oke, snd[0].bb)
    ctx.check(ok, 'C17-R4', 'one-datagram-per-send', b,
              good='a serialisable Send performs exactly one send_to',
              bad='on_command: a Send whose message serialised does not lead to exactly one send_to')
    if snd:
        dv = b.val(snd[0].args[2])
        fc = b.call_at(dv.key) if dv.kind == 'call' else None
        from common import converts
        okd = converts(fc, 'Id', 'SocketAddrV4') and noref(b.val(fc.args[0])) == V('arg', 2, ('as Send', '.0'))
        bv = noref(b.trace(b.val(snd[0].args[1]), ('Deref::deref',)))
        okb = bv.kind == 'call' and bv.key == ser[0].bb
        ctx.check(okd and okb, 'C17-R4', 'datagram-to-dst-with-serialised-bytes', b,
                  good='the datagram carries the serialised message to SocketAddrV4::from(dst)',
                  bad='on_command: send_to does not use SocketAddrV4::from(dst) / the serialised bytes')
    # SetTimer
    blocks = arm_blocks(b, sw, 'SetTimer')
    am = [c for c in b.calls if c.bb in blocks and c.is_('Entry::and_modify')]
    oi = [c for c in b.calls if c.bb in blocks and c.is_('Entry::or_insert_with', 'Entry::or_insert')]
    ins = [c for c in b.calls if c.bb in blocks and c.is_('HashMap::insert')]
    # ... or spelled out: `match map.entry(k) { Occupied(mut e) => { e.insert(v); } Vacant(e) => { e.insert(v); } }`
    occ = [c for c in b.calls if c.bb in blocks and c.is_('OccupiedEntry::insert')]
    vac = [c for c in b.calls if c.bb in blocks and c.is_('VacantEntry::insert')]
    # ... with the occupied slot written through its reference: `*pending.get_mut() = v`
    stored_through = {}
    for c in b.calls:
        if c.bb in blocks and c.is_('OccupiedEntry::get_mut', 'OccupiedEntry::into_mut') and not c.dest['p']:
            for (i, si, st) in b.assigns(lambda st: st['lhs']['p'] == ['deref']):
                lv = noref(b.local_val(st['lhs']['l']))
                if i in blocks and (st['lhs']['l'] == c.dest['l'] or (lv.kind == 'call' and lv.key == c.bb)) and \
                        st['rv']['k'] == 'use':
                    occ.append(c)
                    stored_through[c.bb] = st['rv']['op']
                    break
    ok = (len(am) == 1 and len(oi) == 1) or len(ins) == 1 or (len(occ) == 1 and len(vac) == 1)
    ctx.check(ok, 'C17-R5', 'set-timer-overwrites', b,
              good='SetTimer writes the deadline on both the vacant and the occupied path',
              bad='on_command: SetTimer does not overwrite the deadline of an already pending timer '
                  '(and_modify: %d, or_insert: %d, insert: %d): re-arming keeps the old, earlier deadline, so '
                  'the timer fires before the lower bound of its latest arming' % (len(am), len(oi), len(ins)))
    # both closures compute Instant::now() + duration
    okc = True
    n = 0
    for c in am + oi:
        cv = b.val(c.args[1])
        cl = F.bodies.get(cv.key[1]) if cv.kind == 'agg' and cv.key[0] == 'closure' else None
        if cl is None:
            okc = False
            continue
        n += 1
        nows = cl.calls_to('Instant::now')
        adds = cl.calls_to('Add::add')
        if not (len(nows) == 1 and len(adds) == 1):
            okc = False
    from taint import origins
    for c in ins + occ + vac:
        vop = (c.args[2] if len(c.args) > 2 else None) if c in ins else (c.args[1] if len(c.args) > 1 else None)
        if c.bb in stored_through:
            vop = stored_through[c.bb]
        org = origins(b, vop) if vop is not None else set()
        good = bool(org)
        for o in org:
            if isinstance(o, (str, tuple)) or not o.is_('Add::add'):
                good = False
                continue
            o0 = origins(b, o.args[0])
            if not o0 or not all(not isinstance(x, (str, tuple)) and x.is_('Instant::now') for x in o0):
                good = False
        if good:
            n += 1
        else:
            okc = False
    ctx.check(okc and n >= 1, 'C17-R5', 'deadline-is-now-plus-duration', b,
              good='the stored deadline is Instant::now() + duration on every write',
              bad='on_command: a SetTimer write does not store Instant::now() + duration')
    # duration drawn from the range or its start
    gr = [c for c in b.calls if c.bb in blocks and c.is_('Rng::gen_range', 'Rng::random_range')]
    ctx.check(len(gr) == 1, 'C17-R5', 'duration-from-range', b,
              good='the duration is drawn from the given range (or is its start when the range is empty)',
              bad='on_command: SetTimer does not draw the duration from the given range')
    # ... and when it is not drawn it is the range's LOWER bound: every value the stored duration can stand for is
    # the result of gen_range or `range.start`
    from taint import origin_vals
    dur_ops = []
    for c in am + oi:
        co = c.args[1]
        if co.get('k') in ('copy', 'move') and not co['place']['p']:
            for d in [d for d in b.defs.get(co['place']['l'], []) if d[1] != 'call' and d[2]['rv']['k'] == 'agg' and
                      d[2]['rv'].get('agg') == 'closure']:
                for o in d[2]['rv']['ops']:
                    if o.get('k') in ('copy', 'move') and 'time::Duration' in b.locals[o['place']['l']]['ty'] and \
                            'Range<' not in b.locals[o['place']['l']]['ty']:
                        dur_ops.append(o)
    for c in ins + occ + vac:
        vop = (c.args[2] if len(c.args) > 2 else None) if c in ins else (c.args[1] if len(c.args) > 1 else None)
        if c.bb in stored_through:
            vop = stored_through[c.bb]
        for o in origins(b, vop) if vop is not None else ():
            if not isinstance(o, (str, tuple)) and o.is_('Add::add') and len(o.args) > 1:
                dur_ops.append(o.args[1])
    leaves = set()
    for o in dur_ops:
        leaves |= set(noref(x) for x in origin_vals(b, o))

    def lower_or_drawn(v):
        c_ = b.call_at(v.key) if v.kind == 'call' else None
        if c_ is not None and not v.fields():
            return c_.is_('Rng::gen_range', 'Rng::random_range')
        return v.fields()[-1:] == ('.start',)
    okl = bool(leaves) and all(lower_or_drawn(v) for v in leaves)
    ctx.check(okl, 'C17-R5', 'undrawn-duration-is-lower-bound', b,
              good='the duration is gen_range(..) or range.start on every path',
              bad='on_command: SetTimer can use %s as the duration: when the range cannot be sampled the timer must '
                  'wait for its LOWER bound (range.start), otherwise it fires earlier than the bound it was armed with'
                  % sorted(repr(v) for v in leaves if not lower_or_drawn(v)))
    # CancelTimer never inserts
    blocks = arm_blocks(b, sw, 'CancelTimer')
    bad = [c for c in b.calls if c.bb in blocks and c.is_('Entry::or_insert_with', 'Entry::or_insert', 'HashMap::insert',
                                                          'Entry::or_default', 'Entry::insert_entry', 'VacantEntry::insert')]
    eff = [c for c in b.calls if c.bb in blocks and c.is_('Entry::and_modify', 'HashMap::remove', 'HashMap::get_mut',
                                                          'OccupiedEntry::insert', 'OccupiedEntry::remove')]
    ctx.check(not bad and len(eff) == 1, 'C17-R5', 'cancel-never-arms', b,
              good='CancelTimer only disarms an existing entry',
              bad='on_command: CancelTimer can create an entry (%s) or does nothing' % [c.short for c in bad])


def idx_const(b, place):
    """constant index of the last Index projection of a place"""
    for e in reversed(place['p']):
        if isinstance(e, dict) and 'index' in e:
            v = b.local_val(e['index'])
            return v.key if v.kind == 'const' else None
        if isinstance(e, dict) and 'cindex' in e:
            return e['cindex']
    return None


def r6_codec(ctx, F):
    """Id <-> SocketAddrV4: read with the byte-layout interpretation (A14), so byte tables, array
    literals, slice patterns and shift/or arithmetic are all the same codec."""
    from bytelayout import Layout, UNK
    rule = 'C17-R6'
    dec = F.one_body(r'^actor::spawn::<impl std::convert::From<actor::Id> for std::net::SocketAddrV4>::from$', 'decode')
    enc = F.one_body(r'^actor::spawn::<impl std::convert::From<std::net::SocketAddrV4> for actor::Id>::from$', 'encode')
    ctx.touched(dec)
    ctx.touched(enc)

    # ---- encode: which id byte does each address byte go to?
    def enc_src(c):
        if isinstance(c, tuple):
            return None
        if c.is_('Ipv4Addr::octets'):
            return [('ip', j) for j in range(4)]
        if c.is_('SocketAddrV4::port'):
            return [('port', 0), ('port', 1)]          # most significant byte first
        if c.is_('Ipv4Addr::to_bits') or (c.is_('From::from') and c.targs and c.targs[0] == 'u32' and
                                           'Ipv4Addr' in ''.join(c.targs)):
            return [('ip', j) for j in range(4)]
        return None
    le = Layout(enc, enc_src)
    ids = [st for (i, si, st) in enc.assigns(lambda st: st['lhs']['l'] == 0 and st['rv']['k'] == 'agg' and
                                             st['rv'].get('adt', '').endswith('actor::Id'))]
    if len(ids) != 1:
        raise AnchorMissing('encode: construction of Id')
    id_bytes = le.operand(ids[0]['rv']['ops'][0])
    if len(id_bytes) != 8:
        raise AnchorMissing('encode: the Id payload is not read as 8 bytes (%r)' % (id_bytes,))
    e_pos = dict((sym, k) for k, sym in enumerate(id_bytes) if isinstance(sym, tuple) and sym[0] in ('ip', 'port'))

    # ---- decode: which id byte is each address byte read from?
    def dec_src(c):
        if isinstance(c, tuple):
            return [('id', k) for k in range(8)] if c == ('arg', 1) else None
        return None
    ld = Layout(dec, dec_src)
    news = dec.calls_to('SocketAddrV4::new')
    if len(news) != 1:
        raise AnchorMissing('decode: SocketAddrV4::new')
    ipv = noref(dec.val(news[0].args[0]))
    ipc = dec.call_at(ipv.key) if ipv.kind == 'call' else None
    if ipc is None:
        raise AnchorMissing('decode: construction of the Ipv4Addr')
    if len(ipc.args) == 4:
        ip_bytes = [(ld.operand(a) + [UNK])[0] for a in ipc.args]
    else:
        ip_bytes = ld.operand(ipc.args[0])
    port_bytes = ld.operand(news[0].args[1])
    d_pos = {}
    for j, sym in enumerate(ip_bytes[:4]):
        if isinstance(sym, tuple) and sym[0] == 'id':
            d_pos[('ip', j)] = sym[1]
    for j, sym in enumerate(port_bytes[:2]):
        if isinstance(sym, tuple) and sym[0] == 'id':
            d_pos[('port', j)] = sym[1]
    ip_keys = [('ip', j) for j in range(4)]
    port_keys = [('port', j) for j in range(2)]
    ok_ip = len(ip_bytes) == 4 and all(k in e_pos and e_pos[k] == d_pos.get(k) for k in ip_keys)
    ok_port = len(port_bytes) == 2 and all(k in e_pos and e_pos[k] == d_pos.get(k) for k in port_keys)
    ctx.check(ok_ip, rule, 'ip-bytes-agree', enc,
              good='IPv4 octet j is written to and read from the same byte of the id (%s)' %
                   [e_pos.get(k) for k in ip_keys],
              bad='Id <-> SocketAddrV4: the IPv4 octets are written to bytes %s but read from bytes %s: the '
                  'conversion is not a bijection' % ([e_pos.get(k) for k in ip_keys], [d_pos.get(k) for k in ip_keys]))
    ctx.check(ok_port, rule, 'port-bytes-agree', enc,
              good='port byte j is written to and read from the same byte of the id (%s)' %
                   [e_pos.get(k) for k in port_keys],
              bad='Id <-> SocketAddrV4: the port bytes are written to bytes %s but read from bytes %s' %
                  ([e_pos.get(k) for k in port_keys], [d_pos.get(k) for k in port_keys]))
    rest = [k for k, sym in enumerate(id_bytes) if not (isinstance(sym, tuple) and sym[0] in ('ip', 'port'))]
    ctx.check(all(id_bytes[k] == 0 for k in rest) and len(rest) == 2, rule, 'unused-bytes-zero', enc,
              good='the remaining bytes of the id are zero',
              bad='Id <-> SocketAddrV4: bytes %s of the id are neither address bytes nor zero (%s)' %
                  (rest, [id_bytes[k] for k in rest]))
    # endianness: the layout interpretation already honours be/le per call; both directions agree when
    # the byte positions agree, so this instance records that nothing was left unknown
    ctx.check(UNK not in id_bytes and UNK not in ip_bytes and UNK not in port_bytes, rule, 'endianness-agrees', enc,
              good='every byte of both conversions is accounted for (big-/little-endian calls included)',
              bad='Id <-> SocketAddrV4: some bytes could not be accounted for (encode %s, decode ip %s port %s)' %
                  (id_bytes, ip_bytes, port_bytes))


def run(ctx):
    F = ctx.facts
    ctx.doc('C17-R1', 'on_start once, outside any cycle, dominating all handlers; its commands are executed first')
    ctx.doc('C17-R2', 'all handlers get &mut of the one state value Cow::Owned(on_start(..))')
    ctx.doc('C17-R3', 'on_msg behind deserialize=Ok, msg = Ok payload, src = Id::from(V4 source address)')
    ctx.doc('C17-R4', 'Send: serialize=Ok => exactly one send_to(serialised bytes, SocketAddrV4::from(dst))')
    ctx.doc('C17-R5', 'timer handlers only after checked_duration_since=None and after removing the entry; '
                      'SetTimer overwrites with now + d on both paths; CancelTimer never inserts')
    ctx.doc('C17-R6', 'Id <-> SocketAddrV4 byte tables are inverse, unused bytes zero, endianness agrees')
    with ctx.rule('C17-R1', 'spawn'):
        r1_r2_r3_r5a(ctx, F)
    with ctx.rule('C17-R4', 'on_command'):
        r4_r5b_on_command(ctx, F)
    with ctx.rule('C17-R6', 'codec'):
        r6_codec(ctx, F)
