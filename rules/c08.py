"""C08 - the linearizability tester: structural clauses only."""
import tester_rules as T

LEVEL_TEXT = (
    'Static rules over LinearizabilityTester: well-formedness is sticky (every Err either follows an '
    'already-invalid history or marks it invalid before returning; nothing is recorded before the '
    'flag test; only new() makes a history valid; an invalid history is never searched and has no '
    'serialization); search skeleton of serialize (completion tested first; an in-flight operation is '
    'applied only when its thread has no completed operation left and only if one is in flight; a '
    'completed operation whose return is illegal prunes; both real-time precedence tests are the same '
    'predicate and prune before the operation is applied; every working copy a branch mutates is '
    'created inside the per-thread iteration; recursion continues on the branch copies). The iff - '
    'that the search accepts exactly the linearizable histories - is NOT decided.')

FLOORS = {'C08-R1': 9, 'C08-R3': 10, 'C08-R4': 2, 'C08-R5': 1, 'C08-R6': 1}


def run(ctx):
    F = ctx.facts
    ctx.doc('C08-R1', 'well-formedness is sticky: Err <=> invalid flag (set or already set); only new() validates; '
                      'invalid histories are not searched')
    ctx.doc('C08-R3', 'search skeleton + backtracking hygiene + agreement of the two real-time precedence tests')
    with ctx.rule('C08-R1', T.LIN):
        T.r1_sticky(ctx, F, T.LIN, 'C08-R1')
    with ctx.rule('C08-R3', T.LIN):
        T.search_skeleton(ctx, F, T.LIN, 'C08-R3', lin=True)
    ctx.doc('C08-R4', 'the recursive search shares no mutable state between sibling branches, or its memo keys '
                      'depend on every input (object state, remaining history, in-flight operations)')
    with ctx.rule('C08-R4', T.LIN):
        T.search_is_pure_or_memo_complete(ctx, F, T.LIN, 'C08-R4')
        T.candidates_are_independent(ctx, F, T.LIN, 'C08-R4')
    ctx.doc('C08-R6', 'on_invret is on_invoke followed by on_return (own override or trait default)')
    with ctx.rule('C08-R6', T.LIN):
        T.invret_is_invoke_then_return(ctx, F, T.LIN, 'C08-R6')
    ctx.doc('C08-R5', 'on_invoke snapshots the last completed operation of every other thread, whatever is in flight')
    with ctx.rule('C08-R5', T.LIN):
        T.snapshot_covers_every_peer(ctx, F, T.LIN, 'C08-R5')
