"""C13 - single-threaded BFS evaluates by depth and returns shortest witnesses."""
from checkers import CB, Spawn, is_arg, noref
from c03 import role_of_insert
from mir import AnchorMissing, V

LEVEL_TEXT = (
    'Static structural necessary conditions of BFS order and shortest witnesses in '
    'bfs::check_block/spawn: the queue is consumed at one end and fed at the other; always/sometimes '
    'discoveries are recorded only when none exists yet (first discovery kept); the visited map is '
    'written only through the vacant entry (first discoverer is the parent); a successor\'s depth '
    'label is the dequeued depth + 1 and initial states have depth 1; the share-out keeps the local '
    'queue order. Minimality itself is the textbook consequence for one thread and is not computed.')

FLOORS = {'C13-R1': 2, 'C13-R2': 3, 'C13-R3': 2, 'C13-R4': 2, 'C13-R5': 1, 'C13-R6': 1, 'C01-R4': 5, 'C01-R3': 3}

ENDS = {'pop_back': 'back', 'pop_front': 'front', 'push_back': 'back', 'push_front': 'front'}


def run(ctx):
    F = ctx.facts
    ctx.doc('C13-R1', 'BFS dequeues at one end of `pending` and enqueues at the other (FIFO)')
    ctx.doc('C13-R2', 'always/sometimes inserts are control-dependent on contains_key=false (first kept)')
    ctx.doc('C13-R3', '`generated` is written only through VacantEntry::insert inside check_block')
    ctx.doc('C13-R4', 'successor depth = dequeued depth + 1; initial depth = 1')
    with ctx.rule('C13-R1', 'BFS'):
        cb = CB(F, 'BFS')
        b = cb.b
        ctx.touched(b)
        dq = ENDS.get(cb.deq.short.split('::')[-1])
        for e in cb.enq:
            eq = ENDS.get(e.short.split('::')[-1])
            ctx.check(dq is not None and eq is not None and dq != eq, 'C13-R1', 'fifo-ends', b,
                      good='dequeue at the %s, enqueue at the %s' % (dq, eq),
                      bad='BFS dequeues at the %s and enqueues at the %s of the same deque: states are '
                          'evaluated in LIFO order, deeper states before shallower ones, so the first '
                          'witness found is not a shortest one' % (dq, eq), span=e.span)
        ctx.check(cb.deq_on_param, 'C13-R1', 'same-queue', b, good='dequeue and enqueue use `pending`',
                  bad='BFS dequeues from something other than the pending parameter')
    with ctx.rule('C13-R2', 'BFS'):
        cb = CB(F, 'BFS')
        b = cb.b
        from checkers import no_stray_evaluations
        no_stray_evaluations(ctx, cb, 'C13-R2')
        fe = []
        for c in cb.disc_contains:
            if b.dominates(c.bb, cb.exp_main.bb):
                fe += b.branch(c, False)
        some = [e[1] for e in cb.prop_loop_some]
        for kind in ('Always', 'Sometimes'):
            # one instance per kind of property, whether the arms share one insert or have their own
            sites = [c for c in cb.as_inserts if c.bb in cb.cell(kind)]
            ok = bool(fe) and bool(sites) and all(b.edges_dominate(fe, c.bb, frm=some) for c in sites)
            ctx.check(ok, 'C13-R2', 'first-discovery-kept@%s' % kind, b,
                      good='insert only when no discovery exists yet for the property',
                      bad='BFS: the %s discovery at %s can overwrite an earlier (shallower) one: the '
                          'reported witness is not the first/shortest found' %
                          (kind, [c.span for c in sites]), span=sites[0].span if sites else None)
    with ctx.rule('C13-R3', 'BFS'):
        cb = CB(F, 'BFS')
        b = cb.b
        writes = [c for c in b.calls_to('DashMap::insert', 'DashMap::remove', 'DashMap::alter', 'DashMap::get_mut',
                                        'OccupiedEntry::insert', 'OccupiedEntry::remove', 'Entry::or_insert',
                                        'Entry::and_modify', 'Entry::insert', 'DashMap::clear', 'DashMap::retain')
                  if is_arg(b.val(c.args[0]), cb.p_generated) or
                  (b.val(c.args[0]).kind == 'call' and any(b.val(c.args[0]).key == a[0].bb for a in cb.arb))]
        ctx.check(not writes, 'C13-R3', 'generated-only-via-vacant', b,
                  good='`generated` is only written through VacantEntry::insert',
                  bad='BFS: `generated` is also written by %s: a later discoverer can replace the '
                      'parent pointer of a state, so reconstructed paths are no longer first-found '
                      '(shortest) paths' % [w.short.split('::')[-1] + '@' + w.span for w in writes])
        ctx.check(len(cb.vacant_inserts) >= 1, 'C13-R3', 'vacant-insert-present', b,
                  good='VacantEntry::insert records the parent', bad='BFS: no VacantEntry::insert')
    with ctx.rule('C13-R4', 'BFS'):
        cb = CB(F, 'BFS')
        b = cb.b
        for e in cb.enq:
            v = b.val(e.args[1])
            ok = False
            if v.kind == 'agg' and len(v.key[3]) >= 4:
                dv = b.trace(v.key[3][3], ('Option::unwrap', 'Option::expect', 'NonZero::new'))
                dv = noref(dv)
                if dv.kind == 'bin' and dv.key[0] in ('AddWithOverflow', 'Add', 'AddUnchecked'):
                    ops = list(dv.key[1:])
                    one = [o for o in ops if o.kind == 'const' and o.key == 1]
                    oth = [o for o in ops if not (o.kind == 'const')]
                    if len(one) == 1 and len(oth) == 1:
                        src = b.trace(oth[0], ('NonZero::get',))
                        ok = cb.job_field(src) == 3
            ctx.check(ok, 'C13-R4', 'successor-depth', b,
                      good='successor depth = dequeued depth + 1',
                      bad='BFS: the depth label enqueued with a successor is not (dequeued depth + 1): '
                          'depth limits and max_depth no longer measure distance from the initial states',
                      span=e.span)
        sp = Spawn(F, 'BFS')
        s_ = F.norm(sp.b)
        from taint import origins

        def is_one(op, depth=0):
            """the operand is the NonZeroUsize 1, however it is spelled"""
            if op.get('k') == 'const':
                return op.get('dbg', '').endswith('::MIN') and 'NonZero' in op.get('ty', '') or \
                    (op.get('val') == 1 and depth > 0)
            org = origins(s_, op)
            if not org or depth > 4:
                return False
            for o in org:
                if isinstance(o, (str, tuple)):
                    return False
                if o.is_('Option::unwrap', 'Option::expect', 'Option::unwrap_unchecked', 'NonZero::new',
                         'NonZero::new_unchecked'):
                    if not is_one(o.args[0], depth + 1):
                        return False
                else:
                    return False
            return True
        jobs = [(i, st) for (i, si, st) in s_.assigns(lambda st: st['rv']['k'] == 'agg' and st['rv'].get('agg') == 'tuple'
                                                      and len(st['rv']['ops']) == 4)]
        ok = bool(jobs) and all(is_one(st['rv']['ops'][3]) for (i, st) in jobs)
        ctx.check(ok, 'C13-R4', 'initial-depth', sp.b, good='initial jobs have depth 1',
                  bad='BFS spawn: initial jobs are not labelled with depth 1')

    ctx.doc('C13-R6', 'the initial states enter the search as ONE queue: spawn publishes them with a single push that '
                      'is not inside a loop (a batch per initial state makes a single worker finish a whole search '
                      'from one initial state before it looks at the next)')
    with ctx.rule('C13-R6', 'BFS spawn'):
        import roles
        sp = Spawn(F, 'BFS')
        ctx.touched(sp.b)
        s_ = F.norm(sp.b)
        pushes = roles.calls_role(F, s_, 'push')
        if not pushes:
            raise AnchorMissing('BFS spawn: JobBroker::push of the initial jobs')
        ok = len(pushes) == 1 and not s_.in_cycle(pushes[0].bb)
        ctx.check(ok, 'C13-R6', 'initial-frontier-is-one-batch', sp.b,
                  good='all initial jobs are published as one batch, in init_states() order',
                  bad='BFS spawn publishes the initial states in %s: a worker takes one batch, runs it to exhaustion and '
                      'only then returns to the market, so with one thread the states reachable from one initial '
                      'state are evaluated before the other initial states (depth 0) - evaluation is no longer by '
                      'non-decreasing depth and the first witness found is not a shortest one' %
                      ('several batches' if len(pushes) > 1 else 'one batch per turn of a loop'))

    # "finds a shortest witness" presupposes that BFS expands every state it evaluated (until nothing is awaited):
    # a state that is recorded as a counterexample and then not expanded hides the shorter routes through it
    import c01
    from checkers import CB as _CB
    ctx.doc('C01-R4', 'BFS check_block: from the dequeue every path to the next dequeue / return passes '
                      'Model::actions or a sanctioned exit')
    with ctx.rule('C01-R4', 'BFS'):
        c01.r4_expand_or_sanctioned(ctx, _CB(F, 'BFS'))
    # "shortest among the in-boundary paths from an initial state": the search starts from the in-boundary initial
    # states only and never steps outside the boundary
    ctx.doc('C01-R3', 'BFS: enqueue/arbitration are dominated by within_boundary(successor)=true; the initial states '
                      'are filtered by within_boundary before they are counted, marked and queued')
    with ctx.rule('C01-R3', 'BFS'):
        c01.r3_boundary(ctx, F, _CB(F, 'BFS'))

    ctx.doc('C13-R5', 'single-thread order preservation: the BFS worker hands part of its queue to the market '
                      'only when thread_count > 1, or the broker splits off at most (thread_count - open_count) '
                      'pieces, which is 0 for a single worker')
    with ctx.rule('C13-R5', 'BFS'):
        sp = Spawn(F, 'BFS')
        w = sp.worker
        ctx.touched(w)
        import roles
        splits = roles.calls_role(F, w, 'split_and_push')
        # (a) worker-side guard: a comparison of the captured thread_count with a constant >= 1
        guard_a = bool(splits)
        for sc in splits:
            ok = False
            for sw in w.switches:
                on = sw.on
                if on.kind != 'bin' or on.key[0] not in ('Gt', 'Ge', 'Lt', 'Le', 'Ne'):
                    continue
                ops = [noref(o) for o in on.key[1:]]
                tc = None
                for k, o in enumerate(ops):
                    if o.kind == 'arg' and o.key == 1 and o.fields():
                        idx = o.fields()[0]
                        if idx[1:].isdigit():
                            par, uv = sp.upvar_source(int(idx[1:]))
                            uv = noref(uv)
                            if uv.fields()[-1:] == ('.thread_count',):
                                tc = k
                if tc is None:
                    continue
                other = ops[1 - tc]
                if other.kind != 'const':
                    continue
                c = other.key
                op = on.key[0]
                # normalise to "thread_count OP c"
                if tc == 1:
                    op = {'Gt': 'Lt', 'Ge': 'Le', 'Lt': 'Gt', 'Le': 'Ge', 'Ne': 'Ne'}[op]
                more_than_one = (op == 'Gt' and c >= 1) or (op == 'Ge' and c >= 2) or (op == 'Ne' and c == 1)
                if more_than_one:
                    te = sw.edges_for(True)
                    if te and w.edges_dominate(te, sc.bb):
                        ok = True
            guard_a = guard_a and ok
        # (b) broker-side bound: pieces = 1 + min(thread_count - open_count, len)
        jb = roles.jm(F, 'split_and_push')
        ctx.touched(jb)
        guard_b = False
        so = jb.calls_to('VecDeque::split_off')
        for c in jb.calls_to('cmp::min', 'Ord::min'):
            vs = [jb.val(a) for a in c.args[:2]]
            for v in vs:
                cc = jb.call_at(v.key) if v.kind == 'call' else None
                if cc is not None and 'saturating_sub' in cc.callee:
                    a0, a1 = noref(jb.val(cc.args[0])), noref(jb.val(cc.args[1]))
                    if a0.fields()[-1:] == ('.thread_count',) and a1.fields()[-1:] == ('.open_count',):
                        # and this min feeds the loop bound (1 + min)
                        for (i, si, st) in jb.assigns(lambda st: st['rv']['k'] == 'bin' and
                                                      st['rv']['op'] in ('AddWithOverflow', 'Add')):
                            xs = [jb.val(st['rv']['a']), jb.val(st['rv']['b'])]
                            if any(x.kind == 'const' and x.key == 1 for x in xs) and \
                                    any(x.kind == 'call' and x.key == c.bb for x in xs):
                                guard_b = True
        ctx.check(guard_a or guard_b, 'C13-R5', 'single-worker-keeps-its-queue', w,
                  good='a single-threaded BFS never hands part of its queue to the market (%s)' %
                       ('worker guards on thread_count > 1' if guard_a else
                        'broker splits at most thread_count - open_count pieces'),
                  bad='BFS: with one worker thread split_and_push can still move part of the local queue to the '
                      'market (no `thread_count > 1` guard at the call, and the broker does not bound the number '
                      'of pieces by the number of waiting workers): the oldest (shallowest) states are parked and '
                      'deeper ones are evaluated first, so witnesses are no longer shortest')
