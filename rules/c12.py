"""C12 - run controls are honoured (DESIGN.md section 4, C12)."""
import re

import c01
import c02
import c05
from checkers import CB, EXHAUSTIVE, SPAWNS, Spawn, is_arg, noref
from mir import AnchorMissing, V

LEVEL_TEXT = (
    'Static matrix/table/path rules: every run-control option of CheckerBuilder is read by every '
    'strategy\'s spawn; each HasDiscoveries variant is implemented with the quantifier and the subset '
    'test its name states (membership tests, not counts, for the Failures/Of variants); the finish '
    'condition and the target-state-count test are re-evaluated after every block; the depth test '
    'dominates visiting and property evaluation; the timeout thread never blocks while holding the '
    'market lock; every lap of a worker loop observes the shutdown state; worker 0\'s first simulation '
    'trace uses the caller\'s seed. Wall-clock bounds and "reaches the target when more states exist" '
    'are not decided.')

FLOORS = {'C12-R1': 24, 'C12-R2': 6, 'C12-R3': 8, 'C12-R4': 3, 'C05-R1': 6, 'C05-R10': 2, 'C12-R6': 4, 'C12-R7': 4, 'C12-R8': 20, 'C01-R6': 12, 'C05-R6': 4, 'C01-R4': 8}

OPTIONS = ('finish_when', 'target_state_count', 'target_max_depth', 'timeout', 'visitor', 'thread_count')


def r1_matrix(ctx, F):
    rule = 'C12-R1'
    for strat in ('BFS', 'DFS', 'OD', 'SIM'):
        with ctx.rule(rule, strat):
            sp = Spawn(F, strat)
            ctx.touched(sp.b)
            got = sp.options_field_reads()
            for o in OPTIONS:
                ctx.check(o in got, rule, 'reads-%s' % o, sp.b,
                          good='%s spawn reads options.%s' % (strat, o),
                          bad='%s spawn never reads CheckerBuilder.%s: the option is silently ignored by '
                              'this strategy' % (strat, o))


def closure_of(F, b, v):
    if v.kind == 'agg' and v.key[0] == 'closure':
        return F.bodies.get(v.key[1])
    return None


def r2_matches(ctx, F):
    """HasDiscoveries::matches, arm by arm. Quantified arms are read in loop normal form (A12) as a
    truth table: for every outcome of the per-element tests (is the property a failure kind? is its
    name among the discoveries?) one iteration either decides the result or moves on, and the
    exhausted loop gives the default. `filter(f).any(g)`, `any(|p| f(p) && g(p))` and a `for` loop
    with early return all have the same table."""
    rule = 'C12-R2'
    b0 = F.body('has_discoveries::HasDiscoveries::matches')
    ctx.touched(b0)
    b = F.norm(b0)
    sws = [sw for sw in b.switches if sw.kind == 'variant' and noref(sw.on) == V('arg', 1)]
    if len(sws) != 1:
        raise AnchorMissing('HasDiscoveries::matches: match on self')
    sw = sws[0]
    variants = [l for (l, t) in sw.edges if isinstance(l, str)]
    if len(variants) < 6:
        raise AnchorMissing('HasDiscoveries::matches: expected 6 variant arms, found %s' % variants)
    for v in variants:
        edges = sw.edges_for(v)
        blocks = set()
        for e in edges:
            blocks |= set(x for x in b.reach([e[1]]) if b.edges_dominate([e], x) or x == e[1])
        facts = {'loop': None, 'len_eq': False, 'nonempty': False, 'subset': False, 'intersects': False}
        heads = [c for c in b.calls_to('Iterator::next') if c.bb in blocks and b.in_cycle(c.bb)]
        if len(heads) == 1:
            facts['loop'] = loop_table(b, heads[0], blocks)
        elif len(heads) > 1:
            facts['loop'] = {'error': 'several loops'}
        for (bb, si, st) in b.assigns(lambda st: st['lhs']['l'] == 0 and not st['lhs']['p']):
            if bb not in blocks:
                continue
            rv = st['rv']
            if rv['k'] == 'bin' and rv['op'] == 'Eq':
                va, vb = noref(b.val(rv['a'])), noref(b.val(rv['b']))
                ca = b.call_at(va.key) if va.kind == 'call' else None
                cbb = b.call_at(vb.key) if vb.kind == 'call' else None
                if ca is not None and cbb is not None and ca.short.endswith('::len') and cbb.short.endswith('::len'):
                    roots = set(repr(noref(b.val(x.args[0]))) for x in (ca, cbb))
                    if roots == {repr(V('arg', 2)), repr(V('arg', 3))}:
                        facts['len_eq'] = True
            if rv['k'] == 'un' and rv['op'] == 'Not':
                va = noref(b.val(rv['a']))
                ca = b.call_at(va.key) if va.kind == 'call' else None
                if ca is not None and ca.short.endswith('::is_empty') and noref(b.val(ca.args[0])) == V('arg', 2):
                    facts['nonempty'] = True
                # !own.is_disjoint(discoveries): some element of the own set is discovered
                if ca is not None and ca.is_('BTreeSet::is_disjoint', 'HashSet::is_disjoint') and set_pair(b, ca):
                    facts['intersects'] = True
        for c in b.calls:
            if c.bb not in blocks or c.dest['l'] != 0 or c.dest['p']:
                continue
            # own.is_subset(discoveries): every element of the own set is discovered
            if c.is_('BTreeSet::is_subset', 'HashSet::is_subset') and set_pair(b, c):
                facts['subset'] = True
            # discoveries.first()/iter().next() .is_some(): non-empty
            if c.is_('Option::is_some'):
                src = noref(b.trace(b.val(c.args[0]), ('Iterator::next', 'BTreeSet::iter', 'IntoIterator::into_iter')))
                sc = b.call_at(src.key) if src.kind == 'call' else None
                if src == V('arg', 2) or (sc is not None and sc.is_('BTreeSet::first', 'BTreeSet::last') and
                                          noref(b.val(sc.args[0])) == V('arg', 2)):
                    facts['nonempty'] = True
        ok, why = judge_variant(v, facts)
        ctx.check(ok, rule, 'variant-%s' % v, b0,
                  good='%s is implemented as %s' % (v, why),
                  bad='HasDiscoveries::%s does not mean what its name says: %s (found %s)' % (v, why, facts))


def set_pair(b, c):
    """call c relates the variant's own set (receiver) to the discoveries parameter"""
    a0, a1 = noref(b.val(c.args[0])), noref(b.val(c.args[1]))
    return a0.kind == 'arg' and a0.key == 1 and a1 == V('arg', 2)


def loop_table(b, head, blocks):
    """Truth table of one quantified arm: {'over', 'failure_test', 'table': {(is_failure, discovered):
    outcome}, 'exhausted': value}; outcome is 'next' (try the next element), True / False (the
    arm's result), or 'mixed'."""
    from common import iter_places
    some, none = b.branch(head, 'Some'), b.branch(head, 'None')
    if not some or not none:
        return {'error': 'loop edges'}
    # what is iterated
    src = noref(b.trace(b.val(head.args[0]), ('IntoIterator::into_iter', 'Deref::deref')))
    over = repr(src)
    if src == V('arg', 3):
        over = 'properties'          # `for p in properties`
    elif src.kind == 'arg' and src.key == 1:
        over = 'own-set'
    if src.kind == 'call':
        it = b.call_at(src.key)
        if it is not None and it.args:
            base = noref(b.trace(b.val(it.args[0]), ('Deref::deref',)))
            over = 'properties' if base == V('arg', 3) else \
                ('own-set' if base.kind == 'arg' and base.key == 1 else repr(base))
    # result locals: _0 and whatever is copied (or negated) into it inside the arm; parity tracks `!`
    rl = {0: False}
    grew = True
    while grew:
        grew = False
        for (bb, si, st) in b.assigns(lambda st: not st['lhs']['p'] and st['lhs']['l'] in rl):
            rv = st['rv']
            if bb not in blocks:
                continue
            src, neg = None, False
            if rv['k'] == 'use' and rv['op'].get('k') in ('copy', 'move') and not rv['op']['place']['p']:
                src = rv['op']['place']['l']
            elif rv['k'] == 'un' and rv.get('op') == 'Not' and rv['a'].get('k') in ('copy', 'move') and \
                    not rv['a']['place']['p']:
                src, neg = rv['a']['place']['l'], True
            if src is not None and src not in rl:
                rl[src] = rl[st['lhs']['l']] != neg
                grew = True
    stores = []
    for l, negated in rl.items():
        for (bb, si, val) in b.const_stores(l):
            if bb in blocks:
                stores.append((bb, bool(val) != negated))

    from taint import origins

    def from_elem(op):
        org = origins(b, op)
        return bool(org) and all(isinstance(o, tuple) and o[0] == 'proj' and o[1] is head for o in org)
    difs = [c for c in b.calls_to('Expectation::discovery_is_failure') if c.bb in blocks and from_elem(c.args[0])]
    cons = [c for c in b.calls_to('BTreeSet::contains', 'HashSet::contains')
            if c.bb in blocks and noref(b.val(c.args[0])) == V('arg', 2) and from_elem(c.args[1])]
    if len(cons) != 1 or len(difs) > 1:
        return {'error': 'tests', 'over': over}

    def sw_of(c):
        return b.switches_on_call(c)
    table = {}
    starts = [e[1] for e in some]
    for dv in ((True, False) if difs else (None,)):
        for cv in (True, False):
            cons_ = [(sw_of(cons[0]), cv)]
            if difs:
                cons_.append((sw_of(difs[0]), dv))
            r = b.reach_under(cons_, starts, cut_blocks=[head.bb])
            again = head.bb in b.reach_under(cons_, starts)
            vals = set(val for (bb, val) in stores if bb in r)
            if again and not vals:
                out = 'next'
            elif not again and len(vals) == 1:
                out = next(iter(vals))
            else:
                out = 'mixed'
            table[(dv, cv)] = out
    r = b.reach([e[1] for e in none], cut_blocks=[head.bb])
    ex = set(val for (bb, val) in stores if bb in r)
    return {'over': over, 'failure_test': bool(difs), 'table': table,
            'exhausted': next(iter(ex)) if len(ex) == 1 else 'mixed'}


def judge_variant(v, f):
    subset = 'Failures' in v or v.endswith('Of')
    want_q = 'all' if v.startswith('All') else ('any' if v.startswith('Any') else None)
    if want_q is None:
        return True, 'unclassified variant name (no rule)'
    lp = f['loop'] or {}

    def table_is(quant, failures):
        """any: the first element that qualifies decides `true`; all: the first that fails decides `false`"""
        if not lp or 'table' not in lp:
            return False
        decide = (quant == 'any')
        want = {}
        for (dv, cv), out in lp['table'].items():
            qualifies = cv if quant == 'any' else not cv
            if failures and dv is False:
                qualifies = False
            want[(dv, cv)] = decide if qualifies else 'next'
        return lp['table'] == want and lp['exhausted'] == (not decide) and bool(lp['failure_test']) == failures
    if subset:
        if 'Failures' in v:
            ok = table_is(want_q, True) and lp.get('over') == 'properties'
            return ok, ('%s over the failure properties (discovery_is_failure) testing '
                        'discoveries.contains(name)' % want_q)
        ok = (table_is(want_q, False) and lp.get('over') == 'own-set') or \
            bool(f.get('subset' if want_q == 'all' else 'intersects'))
        return ok, '%s over the given set testing discoveries.contains(name)' % want_q
    if want_q == 'all':
        ok = f['len_eq'] or (table_is('all', False) and lp.get('over') == 'properties')
        return ok, 'discoveries.len() == properties.len() (or all(contains))'
    ok = f['nonempty'] or table_is('any', False)
    return ok, '!discoveries.is_empty() (or any(contains))'

def r3_tests_after_block(ctx, F):
    rule = 'C12-R3'
    for strat in ('BFS', 'DFS', 'OD', 'SIM'):
        with ctx.rule(rule, strat):
            sp = Spawn(F, strat)
            w = sp.worker
            ctx.touched(w)
            cc = sp.check_call
            ex = c02.sanctioned_worker_exits(F, sp)
            fin = [e for (l, es) in ex if l in ('finish_when', 'all-discovered') for e in es]
            tgt = [e for (l, es) in ex if l == 'target_state_count' for e in es]
            fin_blocks = sorted(set(e[0] for e in fin))
            r = w.reach([cc.target], cut_blocks=fin_blocks)
            ctx.check(bool(fin_blocks) and cc.bb not in r, rule, 'finish-condition-after-every-block', w,
                      good='the finish condition is evaluated after every block before the next one starts',
                      bad='%s worker: a new block can start without the finish condition having been '
                          'evaluated after the previous one' % strat)
            # the finish condition is fed the discoveries and the configured HasDiscoveries
            if strat != 'OD':
                m = w.calls_to('HasDiscoveries::matches')
                okm = False
                if len(m) == 1:
                    from common import capture_origin
                    par, uv = capture_origin(F, w, w.val(m[0].args[0]))
                    src = par.call_at(uv.key) if uv.kind == 'call' and not uv.projs else None
                    okm = src is not None and src.is_('Arc::new') and \
                        noref(par.val(src.args[0])).fields()[-1:] == ('.finish_when',)
                ctx.check(okm, rule, 'finish-condition-is-configured-one', w,
                          good='matches() is called on the finish_when taken from the builder',
                          bad='%s worker: the finish condition evaluated is not options.finish_when' % strat)
            tgt_blocks = sorted(set(e[0] for e in tgt))
            none_edges = []
            for sw in w.switches:
                if sw.kind == 'variant':
                    on = noref(sw.on)
                    if on.kind == 'arg' and on.key == 1 and on.fields():
                        idx = on.fields()[0]
                        ups = w.j.get('upvars', [])
                        if idx[1:].isdigit() and int(idx[1:]) < len(ups) and \
                                'Option<std::num::NonZero<usize>>' in ups[int(idx[1:])]['ty']:
                            none_edges += sw.edges_not('Some')
            if not none_edges:
                # the Option may be captured indirectly (inside a helper closure that the worker captured): any
                # Some/None test whose Some edge leads to the comparison plays that role
                for sw in w.switches:
                    labs = [l for (l, t) in sw.edges if isinstance(l, str)]
                    if sw.kind == 'variant' and 'Some' in labs:
                        se = sw.edges_for('Some')
                        if se and any(w.edges_dominate(se, tb) for tb in tgt_blocks):
                            none_edges += sw.edges_not('Some')
            r = w.reach([cc.target], cut_blocks=tgt_blocks, cut_edges=none_edges)
            ctx.check(bool(tgt_blocks) and cc.bb not in r, rule, 'target-after-every-block', w,
                      good='target_state_count is compared after every block (when set)',
                      bad='%s worker: a new block can start without target_state_count having been '
                          'compared after the previous one' % strat)


def sim_is_target(cb, v):
    """v is the configured depth limit (as a number): target_max_depth.get(), or the payload of
    `target_max_depth.map(NonZeroUsize::get)` computed in front of the loop"""
    b = cb.b

    def is_target(v):
        v0 = noref(b.trace(v, ('NonZero::get',)))
        if v0.kind == 'arg' and v0.key == cb.p_target_depth:
            return True
        # unwrapped once in front of the loop: `target_max_depth.map(NonZeroUsize::get)`
        from taint import vals_of
        v1 = noref(v)
        pc = b.call_at(v1.key) if v1.kind == 'call' else None
        if pc is not None and pc.is_('Option::map') and len(pc.args) == 2 and \
                str(pc.args[1].get('fn', '')).endswith('NonZero::<T>::get'):
            a0 = noref(b.val(pc.args[0]))
            return a0.kind == 'arg' and a0.key == cb.p_target_depth
        if v1.kind == 'local':
            vs = vals_of(b, v1)
            ok_ = bool(vs)
            for x in vs:
                x = noref(b.trace(noref(x), ('NonZero::get',)))
                if x.kind == 'local':
                    xs = set(noref(y) for y in vals_of(b, x))
                    ok_ = ok_ and bool(xs) and all(y.kind == 'arg' and y.key == cb.p_target_depth for y in xs)
                else:
                    ok_ = ok_ and x.kind == 'arg' and x.key == cb.p_target_depth
            return ok_
        return False
    return is_target(v)


def sim_depth_edges(cb):
    """pass/stop edges of the depth test in the simulation loop"""
    b = cb.b
    from common import edges_where

    def is_target(v):
        return sim_is_target(cb, v)

    def other(v):
        return not is_target(v)
    return edges_where(b, other, is_target, 'ge') + edges_where(b, other, is_target, 'gt')


def r4_depth_before_eval(ctx, F):
    rule = 'C12-R4'
    for strat in ('BFS', 'DFS', 'SIM'):
        with ctx.rule(rule, strat):
            cb = CB(F, strat)
            b = cb.b
            ctx.touched(b)
            if cb.p_target_depth is None:
                raise AnchorMissing('%s: no target_max_depth parameter' % b.path)
            stop = c01.depth_skip_edges(cb) if strat != 'SIM' else sim_depth_edges(cb)
            if not stop:
                ctx.bad(rule, 'depth-test', b, '%s: no comparison of the job depth with target_max_depth '
                                               'found: states beyond the limit are evaluated' % strat)
                continue
            tests = sorted(set(e[0] for e in stop))
            none_edges = []
            for sw in b.switches:
                if sw.kind == 'variant' and noref(sw.on) == V('arg', cb.p_target_depth):
                    none_edges += sw.edges_not('Some')
            if strat == 'SIM':
                # the limit may have been copied / unwrapped into a local Option first: a Some/None test of a value
                # whose payload is the limit, and whose Some edge leads to the depth comparison, plays that role
                for sw in b.switches:
                    labs = [l for (l, t) in sw.edges if isinstance(l, str)]
                    if sw.kind == 'variant' and 'Some' in labs and noref(sw.on) != V('arg', cb.p_target_depth):
                        se = sw.edges_for('Some')
                        payload = noref(sw.on).with_proj('as Some').with_proj('.0')
                        if se and any(b.edges_dominate(se, tb) for tb in tests) and sim_is_target(cb, payload):
                            none_edges += sw.edges_not('Some')
            starts = [e[1] for e in cb.deq_some] if strat != 'SIM' else [0]
            targets = [c.bb for c in cb.visit] + [c.bb for c in cb.cond_calls] + [cb.actions.bb]
            # cut the test blocks and the "no limit configured" edge: evaluation must be unreachable
            r = b.reach(starts, cut_blocks=tests, cut_edges=none_edges)
            hit = [x for x in targets if x in r]
            ctx.check(not hit, rule, 'depth-test-dominates-evaluation', b,
                      good='visit / property evaluation / expansion are only reached through the depth test',
                      bad='%s: a state can be visited/evaluated/expanded without passing the '
                          'target_max_depth test first' % strat)
            # the stop edge does not lead to evaluation of that state
            bad = []
            for e in stop:
                rr = b.reach([e[1]], cut_blocks=([cb.deq.bb] if strat != 'SIM' else []))
                if any(x in rr for x in targets):
                    bad.append(e)
            ctx.check(not bad, rule, 'beyond-limit-not-evaluated', b,
                      good='a state at the limit is neither visited nor evaluated nor expanded',
                      bad='%s: after the depth test fails the state is still evaluated/expanded (%s)' %
                          (strat, bad))


TRUNCATING_DURATION = ('Duration::as_secs', 'Duration::as_millis', 'Duration::as_micros', 'Duration::subsec_millis',
                       'Duration::subsec_micros', 'Duration::subsec_nanos', 'Duration::as_secs_f32',
                       'Duration::as_secs_f64')


def r8_timeout_at_full_resolution(ctx, F, rule='C12-R8'):
    """"An unexpired timeout changes nothing": the configured timeout is a Duration and deadlines are compared as
    Durations / points in time. Code of the checkers and the job market that turns a duration into whole seconds
    (or another coarser unit) before comparing makes a 1.5 s timeout fire at 1 s and a 0.9 s timeout at once.
    No non-logging call of a truncating accessor may occur there."""
    n = 0
    for b in F.bodies.values():
        if not re.match(r'^<?(checker::(bfs|dfs|on_demand|simulation)|job_market)::', b.path.lstrip('<')) and \
                not re.match(r'^(checker::(bfs|dfs|on_demand|simulation)|job_market)::', b.path):
            continue
        n += 1
        bad = [c for c in b.calls if c.is_(*TRUNCATING_DURATION) and not c.exp]
        if bad:
            ctx.touched(b)
        ctx.check(not bad, rule, 'no-truncated-duration@%s' % b.path, b,
                  good='no duration is truncated to a coarser unit',
                  bad='%s truncates a duration with %s before using it: a timeout with a fractional part expires early '
                      '(1.5 s at 1 s, 0.9 s immediately), so an unexpired timeout stops the check' %
                      (b.path, sorted(set(c.short.split('::')[-1] for c in bad))), span=bad[0].span if bad else None)
    if n < 20:
        raise AnchorMissing('bodies of the checkers and the job market (found %d)' % n)


def r6_shutdown_observed(ctx, F):
    rule = 'C12-R6'
    for strat in ('BFS', 'DFS', 'OD', 'SIM'):
        with ctx.rule(rule, strat):
            sp = Spawn(F, strat)
            w = sp.worker
            cc = sp.check_call
            # calls through which a closed market makes this worker stop: pop() returns an empty batch,
            # is_open() is branched on, split_and_push() empties the caller's queue when the market is
            # closed (so the next lap pops an empty batch) - the last one only if its summary holds
            import roles
            names = ['pop', 'is_open']
            if split_clears_when_closed(F):
                names.append('split_and_push')
            readers = [c.bb for c in roles.calls_role(F, w, *names)]
            for sw in w.switches:
                if sw.on.kind == 'call':
                    c = w.call_at(sw.on.key)
                    if c is not None and c.is_('Atomic::load') and sw.kind == 'bool':
                        readers.append(c.bb)
            r = w.reach([cc.target], cut_blocks=readers)
            ctx.check(cc.bb not in r, rule, 'every-lap-observes-shutdown', w,
                      good='every lap of the worker loop passes a call that observes the shutdown state',
                      bad='%s worker: there is a cycle through check_block that never looks at the '
                          'shutdown state (market.open / shutdown flag): a worker that keeps finding work in '
                          'its own queue ignores a timeout and the stop of its siblings' % strat)


def split_clears_when_closed(F):
    """callee summary: on the `open == false` path split_and_push clears the caller's queue"""
    import roles
    try:
        b = roles.jm(F, 'split_and_push')
    except AnchorMissing:
        return False
    fe = []
    for sw in b.switches:
        if sw.kind == 'bool' and noref(sw.on).fields()[-1:] == ('.open',):
            fe += sw.edges_for(False)
    clears = [c.bb for c in b.calls_to('VecDeque::clear', 'VecDeque::drain', 'VecDeque::truncate')
              if noref(b.val(c.args[0])) == V('arg', 2)]
    if not fe or not clears:
        return False
    r = b.reach([e[1] for e in fe], cut_blocks=clears)
    return not any(x in r for x in b.returns)


def r7_seed(ctx, F):
    rule = 'C12-R7'
    sp = Spawn(F, 'SIM')
    w = sp.worker
    s = sp.b
    ctx.touched(w)
    cc = sp.check_call
    sv = noref(w.val(cc.args[1]))
    ok = False
    why = ''
    if sv.kind == 'local':
        defs = w.defs.get(sv.key, [])
        init = [d for d in defs if d[1] != 'call' and d[2]['rv']['k'] == 'use' and
                noref(w.val(d[2]['rv']['op'])).kind == 'arg']
        others = [d for d in defs if d not in init]
        # re-seeding happens only after the trace call
        late = all(w.dominates(cc.bb, d[0]) for d in others)
        ok = len(init) == 1 and late
        if ok:
            uv = noref(w.val(init[0][2]['rv']['op']))
            idx = int(uv.fields()[0][1:])
            par, pv = sp.upvar_source(idx)
            pv = noref(pv)
            # the captured value is the thread_seed local, whose first definition is the seed param
            if pv.kind == 'local':
                pdefs = par.defs.get(pv.key, [])
                first = [d for d in pdefs if d[1] != 'call' and d[2]['rv']['k'] == 'use' and
                         noref(par.val(d[2]['rv']['op'])) == V('arg', 2)]
                spawn_calls = [c for c in par.calls_to('Builder::spawn', 'thread::spawn')
                               if closure_of(F, par, par.val(c.args[-1])) is w]
                rest = [d for d in pdefs if d not in first]
                ok = len(first) == 1 and bool(spawn_calls) and \
                    all(par.dominates(spawn_calls[0].bb, d[0]) for d in rest)
                why = 'thread_seed starts as the seed parameter and is only changed after the thread was spawned'
            elif pv == V('arg', 2):
                why = 'captures the seed parameter'
            else:
                # the workers may be spawned from inside a closure (`(0..n).map(|t| ..spawn..)`): follow the
                # captured value out to spawn(); in between it may only be changed after the thread was started
                from common import capture_origin, stores_to_field
                pb2, pv2 = capture_origin(F, par, pv, through=())
                ok = False
                if pv.kind == 'local':
                    ds0 = [d for d in par.defs.get(pv.key, []) if d[1] != 'call' and not d[2]['lhs']['p']]
                    if len(ds0) == 1 and ds0[0][2]['rv']['k'] == 'use':
                        pb2, pv2 = capture_origin(F, par, par.val(ds0[0][2]['rv']['op']), through=())
                if pv2.kind == 'local' and pb2 is not par:
                    ds2 = [d for d in pb2.defs.get(pv2.key, []) if d[1] != 'call' and not d[2]['lhs']['p']]
                    if len(ds2) == 1 and ds2[0][2]['rv']['k'] == 'use':
                        pv2 = noref(pb2.val(ds2[0][2]['rv']['op']))
                if pv2 == V('arg', 2) and pb2.path == s.path:
                    spawn_calls = [c for c in par.calls_to('Builder::spawn', 'thread::spawn')]
                    late_stores = [i for (i, si, st_) in par.assigns(lambda st_: st_['lhs']['p'] == ['deref'])
                                   if noref(par.local_val(st_['lhs']['l'])).kind == 'arg']
                    ok = bool(spawn_calls) and all(par.dominates(spawn_calls[0].bb, i) for i in late_stores)
                    why = 'the per-thread seed starts as the seed parameter and is only advanced after the thread was spawned'
    ctx.check(ok, rule, 'first-trace-uses-user-seed', w,
              good='worker 0\'s first check_trace_from_initial gets the caller\'s seed (%s)' % why,
              bad='SIM: the seed handed to the first trace of the first worker is not the caller\'s seed '
                  '(re-seeded before use or derived differently): a run cannot be replayed from its seed')
    cb = CB(F, 'SIM')
    b = cb.b
    ns = b.calls_to('Chooser::new_state')
    okn = len(ns) == 1 and noref(b.val(ns[0].args[1])).kind == 'arg' and \
        b.locals[noref(b.val(ns[0].args[1])).key]['ty'] == 'u64'
    ctx.check(okn, rule, 'chooser-state-from-seed', b,
              good='the chooser state of a trace is created from the trace\'s seed parameter',
              bad='SIM: Chooser::new_state is not called with the trace\'s seed')
    # every choice goes through the chooser with that state
    chs = b.calls_to('Chooser::choose_initial_state', 'Chooser::choose_action')
    st = set(repr(noref(b.val(c.args[1]))) for c in chs)
    okc = len(chs) >= 2 and len(st) == 1 and ns and \
        all(noref(b.val(c.args[1])) in (V('call', ns[0].bb), noref(V('local', ns[0].dest['l']))) for c in chs)
    ctx.check(bool(okc), rule, 'choices-use-that-state', b,
              good='initial-state and action choices use the chooser state created from the seed',
              bad='SIM: choices are not all made with the chooser state created from the seed')
    # worker index 0 is the one that gets thread_seed unmodified: no re-seed before loop
    rs = w.calls_to('SeedableRng::seed_from_u64')
    # ... from the per-thread seed, i.e. the very value the first trace gets (the same captured variable):
    # seeded from anything the threads share, every worker would draw the same later seeds and run the same traces
    same = False
    if rs and sv.kind == 'local':
        from taint import vals_of
        firsts = set()
        for d in w.defs.get(sv.key, []):
            if d[1] != 'call' and d[2]['rv']['k'] == 'use' and not w.dominates(cc.bb, d[0]):
                firsts.add(noref(w.val(d[2]['rv']['op'])))
        raw = noref(w.val(rs[0].args[0]))
        got = set(noref(x) for x in vals_of(w, raw))
        same = raw == sv or (bool(got) and all(x == sv or x in firsts for x in got))
    ctx.check(same, rule, 'rng-seeded-from-thread-seed', w,
              good='the rng that draws the later seeds of a worker is seeded with that worker\'s own seed',
              bad='SIM worker: the rng that draws the seeds of the later traces is not seeded with the per-thread '
                  'seed the first trace uses: workers that share its seed draw the same sequence and repeat each '
                  'other\'s traces instead of exploring different ones')
    ctx.check(len(rs) >= 1, rule, 'rng-seeded-from-seed', w,
              good='the per-thread rng for later traces is seeded from the same seed',
              bad='SIM worker: no rng seeded from the thread seed')


def run(ctx):
    F = ctx.facts
    ctx.doc('C12-R1', 'option x strategy matrix: each spawn reads finish_when, target_state_count, '
                      'target_max_depth, timeout, visitor, thread_count out of the builder')
    ctx.doc('C12-R2', 'HasDiscoveries::matches: All*/Any* use all/any (or len==len / !is_empty for the '
                      'unrestricted variants); *Failures filter by discovery_is_failure over properties; '
                      '*Of iterate the given set; subset variants test membership, not counts')
    ctx.doc('C12-R3', 'finish condition (the configured one) and target_state_count are evaluated after '
                      'every block before the next block starts')
    ctx.doc('C12-R4', 'the depth test dominates visit / property evaluation / expansion, and a state at '
                      'the limit is not evaluated')
    ctx.doc('C05-R1', 'no blocking call (sleep) while the job-market lock is held (timeout thread)')
    ctx.doc('C12-R6', 'no cycle through check_block avoids every observer of the shutdown state')
    ctx.doc('C12-R7', 'worker 0\'s first trace uses the caller\'s seed; chooser state is created from it')
    ctx.doc('C12-R8', 'checkers and job market never truncate a duration to a coarser unit (timeouts are compared at '
                      'full resolution)')
    with ctx.rule('C12-R8', 'durations'):
        r8_timeout_at_full_resolution(ctx, F)
    r1_matrix(ctx, F)
    with ctx.rule('C12-R2', 'matches'):
        r2_matches(ctx, F)
    r3_tests_after_block(ctx, F)
    r4_depth_before_eval(ctx, F)
    with ctx.rule('C05-R1', 'job_market'):
        c05.r1_no_blocking_under_lock(ctx, F)
    # an unexpired timeout changes nothing: configuring one must not alter the worker accounting
    ctx.doc('C05-R10', 'JobBroker::new: open_count and thread_count start as the thread_count parameter '
                       '(independent of whether a timeout is configured)')
    with ctx.rule('C05-R10', 'new'):
        c05.r10_initial_market(ctx, F)
    r6_shutdown_observed(ctx, F)
    # "stops within a bounded delay after expiry for every thread count": every broker that goes away closes the
    # market, clears it and wakes the sleepers - also when the timeout thread has already flipped `open`
    ctx.doc('C05-R6', 'Drop for JobBroker sets open=false, clears batches and notifies all on every path')
    with ctx.rule('C05-R6', 'drop'):
        c05.r6_drop(ctx, F)
    with ctx.rule('C12-R7', 'SIM'):
        r7_seed(ctx, F)
    extra_rules(ctx, F)


def extra_rules(ctx, F):
    """clauses of C12 that rest on rules of neighbouring properties"""
    import c01
    from checkers import CB, EXHAUSTIVE
    # target_state_count is compared with state_count: the counter must count generated in-boundary states
    ctx.doc('C01-R6', 'state_count incremented (by 1) once per in-boundary successor before it is marked visited, '
                      'initialised from the filtered initial states')
    for strat in EXHAUSTIVE:
        with ctx.rule('C01-R6', strat):
            c01.r6_counters(ctx, F, CB(F, strat))
    # "evaluates every state nearer than the depth limit" / "does not stop below the target while more states exist":
    # a job that was dequeued is expanded or leaves through a sanctioned exit - the per-block budget is tested
    # before the dequeue, so running out of it drops nothing
    ctx.doc('C01-R4', 'check_block: from the dequeue every path to the next dequeue / return passes Model::actions or a '
                      'sanctioned exit; the block budget is tested before the dequeue')
    for strat in EXHAUSTIVE:
        with ctx.rule('C01-R4', strat):
            c01.r4_expand_or_sanctioned(ctx, CB(F, strat))
