"""Helpers shared by several property modules."""
import re

from mir import AnchorMissing, V, short, walk_type


def impl_method(F, im, name):
    """Body of method `name` provided by impl fact `im` (None if inherited)."""
    for it in im['provided']:
        if it['name'] == name and it['is_fn']:
            return F.bodies.get(it['path'])
    return None


def bodies_with_closures(F, body):
    return [body] + F.closures_under(body)


def outer_val(F, body, v, depth=0):
    """Resolve a value rooted at a closure's environment (`arg 1`) to the value captured in the
    enclosing body; returns (body, value)."""
    while body.kind == 'Closure' and v.kind == 'arg' and v.key == 1 and depth < 6:
        projs = list(v.projs)
        # strip leading deref of the env reference
        i = 0
        while i < len(projs) and projs[i] in ('deref',):
            i += 1
        if i >= len(projs) or not projs[i].startswith('.') or not projs[i][1:].isdigit():
            break
        idx = int(projs[i][1:])
        rest = projs[i + 1:]
        try:
            parent, bb, st = F.closure_creation(body)
        except AnchorMissing:
            break
        ops = st['rv']['ops']
        if idx >= len(ops):
            break
        nv = parent.val(ops[idx])
        for p in rest:
            nv = nv.with_proj(p)
        body, v = parent, nv
        depth += 1
    return body, v


def iter_places(body):
    """Yield (bb, place_json, context) for every place mentioned in live normal blocks."""
    live = body.live_blocks()

    def from_op(o):
        if o['k'] in ('copy', 'move'):
            yield o['place']

    def from_rv(rv):
        k = rv['k']
        if k in ('use', 'cast', 'repeat'):
            yield from from_op(rv['op'])
        elif k in ('ref', 'rawptr', 'discr'):
            yield rv['place']
        elif k == 'bin':
            yield from from_op(rv['a'])
            yield from from_op(rv['b'])
        elif k == 'un':
            yield from from_op(rv['a'])
        elif k == 'agg':
            for o in rv['ops']:
                yield from from_op(o)

    for i, b in enumerate(body.blocks):
        if b['cleanup'] or i not in live:
            continue
        for st in b['stmts']:
            if st['k'] == 'assign':
                yield (i, st['lhs'], 'store')
                for p in from_rv(st['rv']):
                    yield (i, p, 'read')
        t = b['term']
        if t['k'] == 'call':
            for a in t['args']:
                for p in from_op(a):
                    yield (i, p, 'read')
            if 'fnptr' in t:
                for p in from_op(t['fnptr']):
                    yield (i, p, 'read')
        elif t['k'] == 'switch':
            for p in from_op(t['discr']):
                yield (i, p, 'read')
        elif t['k'] == 'drop':
            yield (i, t['place'], 'drop')


def field_accesses(F, body, adt_path, with_closures=True):
    """Set of (root, field_name, ctx): accesses of fields of `adt_path` in body (+ closures).
    root is the value the access is rooted in, resolved through closure captures."""
    out = set()
    bodies = bodies_with_closures(F, body) if with_closures else [body]
    for b in bodies:
        for (bb, place, ctx) in iter_places(b):
            projs = place['p']
            for pi, e in enumerate(projs):
                if isinstance(e, dict) and 'f' in e and e.get('base') == adt_path:
                    base_place = {'l': place['l'], 'p': projs[:pi]}
                    v = b.place_val(base_place)
                    ob, ov = outer_val(F, b, v)
                    root = V(ov.kind, ov.key, [p for p in ov.projs if p not in ('deref', 'ref')])
                    is_store = ctx == 'store' and pi == len(projs) - 1
                    out.add((root, e['name'] or str(e['f']), 'store' if is_store else 'read'))
    return out


def type_mentions(tree, pred, F=None, follow_local=True):
    hit = []

    def visit(n):
        if pred(n):
            hit.append(n)
    walk_type(tree, visit, F, None, follow_local)
    return hit


def adt_fields(adt):
    """field names of a struct (first variant)"""
    return [f['name'] for f in adt['variants'][0]['fields']]


def fmt_edges(edges):
    return ','.join('bb%d->bb%d' % e for e in edges)


CALLS_CLOSURE_ONCE = ('LocalKey::with', 'LocalKey::with_borrow', 'LocalKey::with_borrow_mut',
                      'Option::unwrap_or_else')


def on_all_paths(F, body, block, depth=0):
    """True when `block` is executed on every normal path through `body` and - if body is a
    closure - through the function that hands the closure to a call-exactly-once consumer."""
    r = body.reach([0], cut_blocks=[block])
    if block == 0:
        r = set()
    if any(x in r for x in body.returns):
        return False
    if body.kind != 'Closure':
        return True
    if depth > 4:
        return False
    try:
        parent, call, ai = F.closure_consumer(body)
    except AnchorMissing:
        return False
    if call is None or not call.is_('LocalKey::with', 'LocalKey::with_borrow', 'LocalKey::with_borrow_mut'):
        return False
    return on_all_paths(F, parent, call.bb, depth + 1)


# ------------------------------------------------------------------------------------------------
# comparisons, whichever way round and with whichever polarity they are written
# ------------------------------------------------------------------------------------------------
_NEG = {'lt': 'ge', 'le': 'gt', 'gt': 'le', 'ge': 'lt', 'eq': 'ne', 'ne': 'eq'}
_FLIP = {'lt': 'gt', 'le': 'ge', 'gt': 'lt', 'ge': 'le', 'eq': 'eq', 'ne': 'ne'}
_BIN = {'Lt': 'lt', 'Le': 'le', 'Gt': 'gt', 'Ge': 'ge', 'Eq': 'eq', 'Ne': 'ne'}
_CALLS = {'PartialOrd::lt': 'lt', 'PartialOrd::le': 'le', 'PartialOrd::gt': 'gt', 'PartialOrd::ge': 'ge',
          'PartialEq::eq': 'eq', 'PartialEq::ne': 'ne'}


def _unsigned_operands(b, sw):
    """the switch tests a primitive comparison of unsigned integers"""
    t = b.blocks[sw.bb]['term']
    d = t['discr']
    if d.get('k') not in ('copy', 'move') or d['place']['p']:
        return False
    seen = 0
    l = d['place']['l']
    while seen < 6:
        ds = [x for x in b.defs.get(l, []) if x[1] != 'call' and not x[2]['lhs']['p']]
        if len(ds) != 1:
            return False
        rv = ds[0][2]['rv']
        if rv['k'] == 'bin':
            for o in (rv['a'], rv['b']):
                if o.get('k') in ('copy', 'move') and not o['place']['p']:
                    return b.locals[o['place']['l']]['ty'] in ('usize', 'u8', 'u16', 'u32', 'u64', 'u128')
                if o.get('k') == 'const' and o.get('ty') in ('usize', 'u8', 'u16', 'u32', 'u64', 'u128'):
                    return True
            return False
        if rv['k'] in ('use', 'un') and (rv.get('op') or rv.get('a', {})).get('k') in ('copy', 'move'):
            o = rv.get('op') if rv['k'] == 'use' else rv['a']
            if o['place']['p']:
                return False
            l = o['place']['l']
            seen += 1
            continue
        return False
    return False


def comparisons(b):
    """Every branch on an ordering / equality test of two values, primitive (`Lt(a, b)`) or through
    the comparison traits: (a, b, rel, edges taken when `a rel b`, edges taken otherwise, block)."""
    out = []
    for sw in b.switches:
        on = sw.on
        if sw.kind == 'bool' and on.kind == 'bin' and on.key[0] in _BIN:
            x, y, rel = on.key[1], on.key[2], _BIN[on.key[0]]
            # unsigned counters against zero: `n > 0` is `n != 0`, `n <= 0` (never written, but its
            # negation is what the false edge of `n > 0` means) is `n == 0`; likewise `n >= 1` / `n < 1`
            if _unsigned_operands(b, sw):
                for (p_, q_, r_) in ((x, y, rel), (y, x, _FLIP[rel])):
                    q0 = q_
                    while q0.kind == 'un':
                        q0 = q0.key[1]
                    if q0.kind == 'const' and q0.key == 0 and r_ in ('gt', 'le'):
                        x, y, rel = p_, q_, {'gt': 'ne', 'le': 'eq'}[r_]
                        break
                    if q0.kind == 'const' and q0.key == 1 and r_ in ('ge', 'lt'):
                        from mir import V
                        x, y, rel = p_, V('const', 0), {'ge': 'ne', 'lt': 'eq'}[r_]
                        break
            out.append((x, y, rel, sw.edges_for(True), sw.edges_for(False), sw.bb))
        elif sw.kind == 'int' and on.kind != 'bin':
            # `match n { 0 => .., k => .. }`: each literal arm is an equality test of the matched value
            from mir import V
            lits = [l for (l, t) in sw.edges if isinstance(l, int) and not isinstance(l, bool)]
            if len(lits) == 1:
                te = [(sw.bb, t) for (l, t) in sw.edges if l == lits[0]]
                fe = [(sw.bb, t) for (l, t) in sw.edges if l != lits[0]]
                out.append((on, V('const', lits[0]), 'eq', te, fe, sw.bb))
    for c in b.calls:
        if c.is_('Ord::cmp') and len(c.args) == 2:
            # match a.cmp(&b) { Less => .., Equal => .., Greater => .. }
            sws = b.switches_on_call(c)
            for name, rel in (('Less', 'lt'), ('Equal', 'eq'), ('Greater', 'gt')):
                te = [e for sw in sws for e in sw.edges_for(name)]
                fe = [e for sw in sws for e in sw.edges_not(name)]
                if te or fe:
                    out.append((b.val(c.args[0]), b.val(c.args[1]), rel, te, fe, c.bb))
            continue
        for pat, rel in _CALLS.items():
            if c.is_(pat) and len(c.args) == 2:
                te, fe = b.branch(c, True), b.branch(c, False)
                if te or fe:
                    out.append((b.val(c.args[0]), b.val(c.args[1]), rel, te, fe, c.bb))
                break
    return out


def edges_where(b, is_a, is_b, rel, with_blocks=False):
    """Edges on which `a rel b` is known to hold, for the a / b recognised by the two predicates;
    `x >= y` false-edge, `y > x` true-edge, ... all establish `x < y`.
    with_blocks: return [(test block, edges)] instead of the flat edge list."""
    out = []
    for (x, y, r, te, fe, bb) in comparisons(b):
        for (p, q, rr) in ((x, y, r), (y, x, _FLIP[r])):
            if is_a(p) and is_b(q):
                es = te if rr == rel else fe if _NEG[rr] == rel else []
                if es:
                    if with_blocks:
                        out.append((bb, es))
                    else:
                        out += es
                break
    return out


def stores_to_field(b, field):
    """(block, statement) of every assignment whose target is the field `field` of some value - written
    as `x.field = v`, or through a reference to the field (`*r = v` with r = &mut x.field, as in a
    closure that captured just that field)."""
    out = []
    for (i, si, st) in b.assigns(lambda st: bool(st['lhs']['p'])):
        p = st['lhs']['p']
        if isinstance(p[-1], dict) and p[-1].get('name') == field:
            out.append((i, st))
            continue
        if p == ['deref']:
            v = b.local_val(st['lhs']['l'])
            fs = [q for q in v.projs if q.startswith('.')]
            # a reference taken of exactly that field: the last projections are [.field, ref]
            tail = [q for q in v.projs if q != 'deref']
            if tail and tail[-1] == 'ref' and len(tail) >= 2 and tail[-2] == '.' + field:
                out.append((i, st))
    return out


def collected_elements(b, ty_pred):
    """Elements that end up in a collection built by `collect()` / `from_iter()` in normal form (A12):
    (yield call, element operand, collect call) for every `desugar::yield(&mut out, elem)` whose `out`
    is handed to a collect whose result type satisfies ty_pred."""
    out = []
    for c in b.calls_to('Iterator::collect', 'FromIterator::from_iter'):
        if c.dest['p'] or not ty_pred(b.locals[c.dest['l']]['ty']):
            continue
        if not c.args or c.args[0].get('k') not in ('copy', 'move'):
            continue
        src = c.args[0]['place']['l']
        for y in b.calls_to('desugar::yield'):
            r = y.args[0]
            if r.get('k') not in ('copy', 'move'):
                continue
            ds = [d for d in b.defs.get(r['place']['l'], []) if d[1] != 'call' and d[2]['rv']['k'] == 'ref']
            if any(d[2]['rv']['place']['l'] == src for d in ds):
                out.append((y, y.args[1], c))
    return out


def variant_flags(b, field):
    """Boolean locals that cache a `match`/`matches!` on `<something>.field`:
    {local: {True: labels under which it is set true, False: labels under which it is set false}}.
    A label is a variant name; a store counts for the variants of the switch edge(s) that dominate it."""
    out = {}
    sws = [sw for sw in b.switches if sw.kind == 'variant' and sw.on.fields() and sw.on.fields()[-1] == '.' + field]
    if not sws:
        return out
    for l in range(len(b.locals)):
        if b.locals[l]['ty'] != 'bool':
            continue
        stores = b.const_stores(l)
        if len(stores) < 2 or len(stores) != len([d for d in b.defs.get(l, []) if d[1] == 'call' or not d[2]['lhs']['p']]):
            continue
        m = {True: set(), False: set()}
        ok = True
        for (bb, si, val) in stores:
            labs = set()
            for sw in sws:
                for (lab, tgt) in sw.edges:
                    if b.edges_dominate([(sw.bb, tgt)], bb):
                        labs |= set(lab) if isinstance(lab, frozenset) else {lab}
            if not labs:
                ok = False
            m[bool(val)] |= labs
        if ok and m[True] and m[False] and not (m[True] & m[False]):
            out[l] = m
    return out


def bool_fn_table(b, atoms):
    """Truth table of a small boolean function, read off its control-flow graph.
    atoms: {name: (constraint(value) -> [(switch list, label)], resolver)} where resolver(v) says whether a
    def-use value IS this atom (then a result `_0 = atom` takes the atom's assigned value).
    Returns {assignment tuple (in sorted-name order): set of possible results (True/False/'?')}."""
    import itertools
    names = sorted(atoms)
    table = {}
    for combo in itertools.product((True, False), repeat=len(names)):
        asg = dict(zip(names, combo))
        cons = []
        for n in names:
            cons += atoms[n][0](asg[n])
        r = b.reach_under(cons, [0])
        res = set()

        def value_of(v, depth=0):
            neg = False
            while v.kind == 'un' and v.key[0] == 'Not':
                v = v.key[1]
                neg = not neg
            if v.kind == 'const' and v.key in (0, 1):
                return bool(v.key) != neg
            for n in names:
                if atoms[n][1](v):
                    return asg[n] != neg
            return '?'
        from mir import V

        def local_results(l, depth=0):
            """possible values of local l, looking only at the definitions that can execute under this assignment"""
            out = set()
            if depth > 8:
                return {'?'}
            ds = [d for d in b.defs.get(l, []) if (d[1] == 'call' or not d[2]['lhs']['p']) and d[0] in r]
            if not ds:
                return {'?'}
            for (bb, si, st) in ds:
                if si == 'call':
                    out.add(value_of(V('call', bb)))
                    continue
                rv = st['rv']
                if rv['k'] == 'use':
                    o = rv['op']
                    v = value_of(b.val(o))
                    if v == '?' and o.get('k') in ('copy', 'move') and not o['place']['p']:
                        out |= local_results(o['place']['l'], depth + 1)
                    else:
                        out.add(v)
                elif rv['k'] == 'un' and rv.get('op') == 'Not':
                    o = rv['a']
                    v = value_of(b.val(o))
                    vs = {v}
                    if v == '?' and o.get('k') in ('copy', 'move') and not o['place']['p']:
                        vs = local_results(o['place']['l'], depth + 1)
                    out |= set((not x) if x != '?' else '?' for x in vs)
                elif rv['k'] == 'bin':
                    out.add(value_of(V('bin', (rv['op'], b.val(rv['a']), b.val(rv['b'])))))
                else:
                    out.add('?')
            return out
        table[combo] = local_results(0)
    return names, table


def possible_results(b, live, local=0, atoms=None, depth=0):
    """Values the boolean `local` (default: the return place) can take when only the blocks in `live`
    execute: True / False for constants (through copies and `!`), '?' for anything computed."""
    from mir import V
    out = set()
    if depth > 8:
        return {'?'}
    ds = [d for d in b.defs.get(local, []) if (d[1] == 'call' or not d[2]['lhs']['p']) and d[0] in live]
    if not ds:
        return {'?'}
    for (bb, si, st) in ds:
        if si == 'call':
            # atoms: {call block: value} for calls whose answer is assumed in this query
            out.add(atoms[bb] if atoms and bb in atoms else '?')
            continue
        rv = st['rv']
        neg = False
        o = None
        if rv['k'] == 'use':
            o = rv['op']
        elif rv['k'] == 'un' and rv.get('op') == 'Not':
            o, neg = rv['a'], True
        if o is None:
            out.add('?')
            continue
        if o.get('k') == 'const' and o.get('val') in (0, 1):
            out.add(bool(o['val']) != neg)
        elif o.get('k') in ('copy', 'move') and not o['place']['p']:
            out |= set((x != neg) if x != '?' else '?' for x in possible_results(b, live, o['place']['l'], atoms, depth + 1))
        else:
            out.add('?')
    return out


def capture_origin(F, body, v, through=('Clone::clone', 'Arc::clone', 'Deref::deref')):
    """Follow a value out of closures: through clones / derefs, through the captured-variable slots of
    the closure (up to the enclosing function, however many closures are nested) and through closure
    values that were themselves captured (`(*env).k.j` = capture j of the closure stored in capture k).
    Returns (body, value) where the chase ends."""
    from mir import V
    for _ in range(12):
        v = V(v.kind, v.key, [p for p in v.projs if p not in ('ref', 'deref')])
        v2 = body.trace(v, through)
        v2 = V(v2.kind, v2.key, [p for p in v2.projs if p not in ('ref', 'deref')])
        if v2.kind == 'agg' and v2.projs:
            c = body._agg_component(v2)
            if c is not None:
                v = c
                continue
        if v2 != v:
            v = v2
            continue
        if body.kind == 'Closure' and v.kind == 'arg' and v.key == 1 and v.projs and \
                v.projs[0].startswith('.') and v.projs[0][1:].isdigit():
            try:
                parent, bb, st = F.closure_creation(body)
            except AnchorMissing:
                break
            ops = st['rv']['ops']
            idx = int(v.projs[0][1:])
            if idx >= len(ops):
                break
            nv = parent.val(ops[idx])
            for p in v.projs[1:]:
                nv = nv.with_proj(p)
            body, v = parent, nv
            continue
        break
    return body, v


def loop_carried_user_locals(b, head, ignore=()):
    """User variables whose value can flow from one turn of the loop at `head` (an Iterator::next call) into
    the next: written somewhere in the loop body and read in the body on a path from the loop head that has not
    passed a (whole) write of this turn. Statement order inside a block is respected. Returns
    [(local, name, block of the read)]."""
    from taint import rv_operands, op_locals
    some = b.branch(head, 'Some')
    if not some:
        return []
    body = b.reach([e[1] for e in some], cut_blocks=[head.bb])
    body.discard(head.bb)
    users = {}
    for d in b.j['debug']:
        if not d['place']['p']:
            users[d['place']['l']] = d['name']
    out = []

    def events(i):
        """ordered (kind, local) events of block i: ('def', l) whole writes, ('use', l) reads"""
        ev = []
        bl = b.blocks[i]
        for st in bl['stmts']:
            if st['k'] != 'assign':
                continue
            for o in rv_operands(st['rv']):
                for l in op_locals(o):
                    ev.append(('use', l))
            if st['rv']['k'] == 'ref':
                ev.append(('use', st['rv']['place']['l']))
            if st['rv']['k'] == 'discr':
                ev.append(('use', st['rv']['place']['l']))
            if st['lhs']['p']:
                ev.append(('use', st['lhs']['l']))      # a partial write keeps the rest
                ev.append(('pdef', st['lhs']['l']))
            else:
                ev.append(('def', st['lhs']['l']))
        t = bl['term']
        if t['k'] == 'call':
            for o in list(t['args']) + ([t['fnptr']] if t.get('fnptr') else []):
                for l in op_locals(o):
                    ev.append(('use', l))
            if t['dest']['p']:
                ev.append(('pdef', t['dest']['l']))
            else:
                ev.append(('def', t['dest']['l']))
        elif t['k'] == 'switch':
            o = t.get('on') or t.get('discr')
            if isinstance(o, dict):
                for l in op_locals(o):
                    ev.append(('use', l))
        return ev
    evs = dict((i, events(i)) for i in body)
    for l, name in sorted(users.items()):
        if l in ignore:
            continue
        written = [i for i in body if any(k in ('def', 'pdef') and x == l for (k, x) in evs[i])]
        if not written:
            continue
        # blocks reachable from the head's Some edge without passing a whole write of l
        seen = set()
        dq = [e[1] for e in some]
        hit = None
        while dq and hit is None:
            i = dq.pop()
            if i in seen or i not in body:
                continue
            seen.add(i)
            killed = False
            for (k, x) in evs[i]:
                if x != l:
                    continue
                if k == 'use':
                    hit = i
                    break
                if k == 'def':
                    killed = True
                    break
            if hit is not None or killed:
                continue
            dq += [t for t in b.succ[i] if t in body]
        if hit is not None:
            out.append((l, name, hit))
    return out


def converts(c, src_sub, dst_sub):
    """call c is `Dst::from(x)` / `x.into()` (either spelling of the same conversion) from a type containing
    src_sub to a type containing dst_sub"""
    if c is None or not c.targs or len(c.targs) < 2:
        return False
    if c.is_('From::from'):
        dst, src = c.targs[0], c.targs[1]
    elif c.is_('Into::into'):
        src, dst = c.targs[0], c.targs[1]
    else:
        return False
    return src_sub in src and dst_sub in dst


def reach_with_flags(b, starts, cut_edges=(), cut_blocks=()):
    """Body.reach plus the constant-flag refinement of reach_under: a test of a bool local that - within what is
    reachable - only ever received one constant (directly or through a `&mut` to it) takes only that edge."""
    cut_edges = list(cut_edges)
    live = b.reach(starts, cut_edges=cut_edges, cut_blocks=cut_blocks)
    flags = [sw for sw in b.switches if sw.kind == 'bool' and sw.on.kind == 'local' and not sw.on.projs]
    for _ in range(4):
        extra = []
        for sw in flags:
            if sw.bb not in live:
                continue
            stores = b.flag_stores(sw.on.key)
            if not stores:
                continue
            vals = set(bool(v) for (bb, v) in stores if bb in live)
            if len(vals) == 1:
                keep = set(sw.edges_for(next(iter(vals))))
                extra += [e for (l, t) in sw.edges for e in [(sw.bb, t)] if e not in keep and e not in cut_edges]
        if not extra:
            break
        cut_edges += extra
        live = b.reach(starts, cut_edges=cut_edges, cut_blocks=cut_blocks)
    return live
