"""C09 - crash faults: every allowed crash point is explored; crashed actors stay silent."""
import c04
from actor_rules import ACTIONS, ALL_HANDLERS, NS, PC, NextState, is_usize_from_id, noref, pc_calls
from common import bodies_with_closures, outer_val
from mir import AnchorMissing, V

LEVEL_TEXT = (
    'Static rules over ActorModel::{actions, next_state} and ActorModelState identity: crash flags '
    'are part of Hash/Eq (so crash points are distinct states); the Crash arm cancels all timers, '
    'clears the pending random choices and raises the flag of exactly the crashing actor on every '
    'path and runs no handler; delivery to a crashed actor yields no transition and process_commands '
    'is reachable only from handler arms; a Crash action is offered for every actor that is up, '
    'guarded by a strict comparison of the number of crashed actors with max_crashes, with no '
    'truncating iterator adaptor in between; timeouts/random choices of a crashed actor cannot exist '
    'because the crash discards them and nothing re-creates them. Reachability of every crash point '
    'is C01 + C04 and is not computed here.')

FLOORS = {'C09-R1': 3, 'C09-R2': 4, 'C09-R3': 3, 'C09-R4': 4, 'C09-R5': 2, 'C10-R1': 8, 'C06-R3': 10}

TRUNCATING = ('Iterator::take', 'Iterator::skip', 'Iterator::step_by', 'Iterator::take_while',
              'Iterator::skip_while', 'Iterator::nth', 'Iterator::last', 'Iterator::next', 'Iterator::find',
              'Iterator::find_map', 'Iterator::position', 'Iterator::min', 'Iterator::max', 'Iterator::rev',
              'Iterator::map_while', 'Iterator::zip', 'Iterator::chain', 'Iterator::peekable', 'Iterator::fuse')


def r2_crash_effects(ctx, F):
    rule = 'C09-R2'
    ns = NextState(F)
    b = ns.b
    ctx.touched(b)
    blocks, edges = ns.arm('Crash')
    starts = [e[1] for e in edges]
    somes = [i for (i, st) in ns.some_returns('Crash')]
    if not somes:
        raise AnchorMissing('Crash arm: Some(..) result')
    musts = {
        'timers-cancelled': [c.bb for c in ns.calls_in('Crash', 'Timers::cancel_all')],
        'random-choices-cleared': [c.bb for c in ns.calls_in('Crash', 'HashMap::clear', 'HashableHashMap::clear',
                                                             'RandomChoices::clear')],
    }
    flag = []
    for (i, si, st) in b.assigns(lambda st: st['rv']['k'] == 'use' and st['rv']['op']['k'] == 'const'
                                 and st['rv']['op'].get('val') == 1 and st['lhs']['p'] == ['deref']):
        if i not in blocks:
            continue
        v = noref(b.place_val({'l': st['lhs']['l'], 'p': []}))
        c = b.call_at(v.key) if v.kind == 'call' else None
        if c is not None and c.is_('IndexMut::index_mut') and noref(b.val(c.args[0])).fields()[-1:] == ('.crashed',):
            flag.append(i)
    musts['flag-raised'] = flag
    for what, blks in musts.items():
        r = b.reach(starts, cut_blocks=blks)
        ctx.check(bool(blks) and not any(x in r for x in somes), rule, 'crash-' + what, b,
                  good='the Crash step has effect "%s" on every path' % what,
                  bad='next_state: a Crash step can produce its successor without "%s": a crashed actor '
                      'keeps %s' % (what, {'timers-cancelled': 'its timers (they still fire)',
                                           'random-choices-cleared': 'pending random choices (they are still selected)',
                                           'flag-raised': 'running (it is not marked crashed)'}[what]))
    hs = ns.calls_in('Crash', *ALL_HANDLERS) + pc_calls(F, b, ns.arm('Crash')[0])
    ctx.check(not hs, rule, 'crash-runs-no-actor-code', b,
              good='a Crash step runs no handler and applies no commands',
              bad='next_state: the Crash arm runs %s' % [h.short for h in hs])


def r3_silent(ctx, F):
    rule = 'C09-R3'
    ns = NextState(F)
    b = ns.b
    hs = ns.calls_in('Deliver', 'Actor::on_msg')
    if len(hs) != 1:
        raise AnchorMissing('Deliver arm: on_msg')
    # a switch on crashed[index] whose false edge dominates on_msg, true edge leads to None
    ok = False
    for sw in b.switches:
        if sw.kind != 'bool':
            continue
        on = noref(sw.on)
        c = b.call_at(on.key) if on.kind == 'call' else None
        if c is None or not c.is_('Index::index'):
            continue
        recv = noref(b.val(c.args[0]))
        if recv.fields()[-1:] != ('.crashed',) or recv.key != ns.p_state:
            continue
        iv = noref(b.val(c.args[1]))
        src = b.call_at(iv.key) if iv.kind == 'call' else None
        if src is None or not is_usize_from_id(src) or noref(b.val(src.args[0])) != ns.action_id('Deliver'):
            continue
        fe = sw.edges_for(False)
        te = sw.edges_for(True)
        blocks, edges = ns.arm('Deliver')
        if fe and b.edges_dominate(fe, hs[0].bb, frm=[e[1] for e in edges]):
            rt = b.reach([e[1] for e in te])
            if not any(i in rt for (i, st) in ns.some_returns('Deliver')):
                ok = True
    ctx.check(ok, rule, 'no-delivery-to-crashed', b,
              good='on_msg is reached only when crashed[dst] is false; a crashed destination yields None',
              bad='next_state: a message can be delivered to (and handled by) a crashed actor: the '
                  'crashed[dst] test does not guard on_msg')
    # process_commands is reachable only from handler arms
    for v in ('Drop', 'Crash'):
        pcs = pc_calls(F, b, ns.arm(v)[0])
        ctx.check(not pcs, rule, 'no-commands-in-%s' % v, b,
                  good='%s arm applies no commands' % v, bad='next_state: %s arm applies commands' % v)


def r4_budget_is_configured_value(ctx, F):
    """the budget the checks above compare with is the one the user configured: the builder stores its parameter,
    and nothing else writes the field (a budget adjusted against what the builder has seen so far - the actors
    added before the call - depends on the order of the builder calls)"""
    from common import stores_to_field
    setters = [x for x in F.bodies.values() if x.kind != 'Closure' and
               x.path.startswith('actor::model::ActorModel::<') and x.path.endswith('::max_crashes')]
    if len(setters) != 1:
        raise AnchorMissing('ActorModel::max_crashes builder (found %d)' % len(setters))
    b = setters[0]
    ctx.touched(b)
    st = stores_to_field(b, 'max_crashes')
    ok = len(st) == 1 and st[0][1]['rv']['k'] == 'use' and noref(b.val(st[0][1]['rv']['op'])) == V('arg', 2)
    ctx.check(ok, 'C09-R4', 'budget-stored-as-given', b,
              good='ActorModel::max_crashes stores its parameter unchanged',
              bad='ActorModel::max_crashes does not store its parameter as given (%s): the crash budget that is '
                  'explored is not the configured one - fewer (or more) crash points than the user asked for are '
                  'covered, depending on what the builder had seen when it was called' %
                  [repr(b.val(x[1]['rv']['op'])) if x[1]['rv']['k'] == 'use' else x[1]['rv']['k'] for x in st])
    others = []
    for x in F.bodies.values():
        if x is b or x.kind == 'Closure' and False:
            continue
        if 'actor::model' in x.path and 'test' not in x.path:
            for (i, st_) in stores_to_field(x, 'max_crashes'):
                others.append('%s@%s' % (x.path.split('::')[-1], st_.get('span', i)))
    ctx.check(not others, 'C09-R4', 'budget-written-by-builder-only', b,
              good='no other function of the actor model writes max_crashes',
              bad='max_crashes is also written at %s' % sorted(others))


def r4_budget(ctx, F):
    """actions(): the Crash offers, read in loop normal form (A12) so that an iterator chain and a
    `for` loop are the same program."""
    from common import edges_where
    from taint import origins
    rule = 'C09-R4'
    b0 = F.body(ACTIONS)
    ctx.touched(b0)
    b = F.norm(b0)
    crash_sites = [(i, st) for (i, si, st) in b.assigns(lambda st: st['rv']['k'] == 'agg' and
                                                        st['rv'].get('adt', '').endswith('ActorModelAction') and
                                                        st['rv']['variant'] == 'Crash')]
    if not crash_sites:
        raise AnchorMissing('actions(): construction of ActorModelAction::Crash')
    # the loop that produces them
    heads = [c for c in b.calls_to('Iterator::next') if b.in_cycle(c.bb) and
             all(b.dominates(c.bb, i) for (i, st) in crash_sites)]
    if not heads:
        raise AnchorMissing('actions(): loop around the Crash offers')
    head = max(heads, key=lambda c: len([1 for x in heads if b.dominates(x.bb, c.bb)]))
    some, none = b.branch(head, 'Some'), b.branch(head, 'None')
    if not some or not none:
        raise AnchorMissing('actions(): Some/None edges of the crash loop')
    # where an offer is *produced*: the Crash construction itself, or - when the ids are first gathered in a
    # collection (`for id in self.crashable_actors(state)`) - the point that yields an id into it
    from taint import _single_source, collection_yields
    forwarded = None
    coll = _single_source(b, head.args[0]['place']['l'], ('IntoIterator::into_iter', 'slice::iter', 'Vec::iter', 'Deref::deref')) \
        if head.args and head.args[0].get('k') in ('copy', 'move') else None
    cy = collection_yields(b, coll) if coll is not None else None
    if cy is not None:
        ys = cy[1]
        pheads = [c for c in b.calls_to('Iterator::next') if b.in_cycle(c.bb) and all(b.dominates(c.bb, y.bb) for y in ys)]
        if pheads:
            # the consuming loop turns every gathered id into an offer, unconditionally
            cbody = b.reach([e[1] for e in some], cut_blocks=[head.bb])
            fw = True
            for (i, st) in crash_sites:
                # (origins() looks through the collection: the offered id is one of the gathered ones)
                org = origins(b, st['rv']['ops'][0])
                gathered = set()
                for y in ys:
                    gathered |= origins(b, y.args[1])
                if not org or org != gathered or 'other' in org:
                    fw = False
                if head.bb in b.reach([e[1] for e in some], cut_blocks=[i]):
                    fw = False
            if any(x in cbody for x in b.returns):
                fw = False
            forwarded = fw
            head = max(pheads, key=lambda c: len([1 for x in pheads if b.dominates(x.bb, c.bb)]))
            some, none = b.branch(head, 'Some'), b.branch(head, 'None')
            crash_sites = [(y.bb, {'rv': {'ops': [y.args[1]]}}) for y in ys]
    if forwarded is not None:
        ctx.check(forwarded, rule, 'gathered-ids-all-offered', b0,
                  good='every id gathered for crashing becomes a Crash action',
                  bad='actions(): the ids gathered for crashing are not all turned into Crash actions')

    def is_budget(v):
        return noref(v).fields()[-1:] == ('.max_crashes',)
    no_budget = edges_where(b, is_budget, lambda v: v.kind == 'const' and v.key == 0, 'eq')

    def count_calls(v):
        """the counting calls v stands for; a constant 0 chosen when max_crashes == 0 (nothing can be offered
        then anyway) is not a count of its own. None: something else."""
        v = noref(v)
        if v.kind == 'call':
            c = b.call_at(v.key)
            return [c] if c is not None and not v.projs and c.is_('Iterator::count', 'Iterator::sum', 'Vec::len') else None
        if v.kind == 'local' and not v.projs:
            out = []
            for d in [d for d in b.defs.get(v.key, []) if d[1] == 'call' or not d[2]['lhs']['p']]:
                if d[1] == 'call':
                    r = count_calls(V('call', d[0]))
                else:
                    rv = d[2]['rv']
                    dv = b.val(rv['op']) if rv['k'] == 'use' else None
                    if dv is not None and dv.kind == 'const' and dv.key == 0 and no_budget and \
                            b.edges_dominate(no_budget, d[0]):
                        r = []
                    elif dv is not None and noref(dv) != v:
                        r = count_calls(dv)
                    else:
                        r = None
                if r is None:
                    return None
                out += r
            return out or None
        return None

    def is_count(v):
        return bool(count_calls(v))
    lt = edges_where(b, is_count, is_budget, 'lt', with_blocks=True)
    loose = edges_where(b, is_count, is_budget, 'le') + edges_where(b, is_count, is_budget, 'ne')
    lt_edges = [e for (_bb, es) in lt for e in es]
    # the budget test guards the whole loop, or each offer inside it (`filter(|..| can_crash && !crashed)`)
    ok = bool(lt) and (b.edges_dominate(lt_edges, head.bb) or
                       all(b.edges_dominate(lt_edges, i) for (i, st) in crash_sites))
    why = 'no comparison `count < max_crashes` guards the crash offers' + \
        (' (a non-strict / inequality comparison was found instead)' if loose and not lt else '')
    ctx.check(ok, rule, 'crash-offered-only-under-budget', b0,
              good='Crash actions are offered only when (number of crashed actors) < max_crashes',
              bad='actions(): %s: more than max_crashes actors can be down at once, or the budget is never '
                  'usable' % why)
    # the count really counts set flags of state.crashed (read on the un-normalised body: the
    # counting chain is `state.crashed.iter().filter(..).count()`)
    okc = False
    for c in b0.calls_to('Iterator::count', 'Iterator::sum', 'Vec::len'):
        used = any(cb_ in (count_calls(z) or []) for (x, y, r, te, fe, bb) in __import__('common').comparisons(b)
                   for z in (x, y) for cb_ in b.calls if cb_.span == c.span and cb_.short == c.short)
        if not used:
            continue
        # (`.take(max_crashes)` in front of count(): min(count, max) < max is count < max)
        takes = [t_ for t_ in b0.calls_to('Iterator::take') if len(t_.args) > 1 and
                 noref(b0.val(t_.args[1])).fields()[-1:] == ('.max_crashes',)]
        v0 = b0.val(c.args[0])
        for _ in range(4):
            v0 = noref(b0.trace(v0, ('Iterator::filter', 'slice::iter', 'Deref::deref', 'Vec::iter',
                                     'IntoIterator::into_iter', 'Iterator::copied', 'Iterator::cloned')))
            tc = b0.call_at(v0.key) if v0.kind == 'call' and not v0.fields() else None
            if tc is not None and tc in takes:
                v0 = b0.val(tc.args[0])
                continue
            break
        src = v0
        if src.fields()[-1:] == ('.crashed',):
            okc = True
    ctx.check(okc, rule, 'count-is-over-crashed-flags', b0,
              good='the compared count is taken over state.crashed',
              bad='actions(): the number compared with max_crashes is not derived from state.crashed')
    # every up actor gets a Crash action: the loop runs over enumerate(state.crashed) without a
    # truncating adaptor and without leaving early
    trunc = []
    chain = []
    v = b.val(head.args[0])
    seen = 0
    while seen < 16:
        v = noref(v)
        if v.kind != 'call':
            break
        cc = b.call_at(v.key)
        if cc is None or not cc.args:
            break
        chain.append(cc)
        if cc.is_(*TRUNCATING):
            trunc.append(cc)
        v = b.val(cc.args[0])
        seen += 1
    base_ok = noref(v).fields()[-1:] == ('.crashed',) and any(c.is_('Iterator::enumerate') for c in chain)
    body = b.reach([e[1] for e in some], cut_blocks=[head.bb])
    early = [x for x in body if x in [e[1] for e in none] or x in b.returns]
    ctx.check(not trunc and base_ok and not early, rule, 'every-up-actor-may-crash', b0,
              good='the Crash offers are produced by a full pass over enumerate(state.crashed)',
              bad='actions(): the loop that produces Crash actions %s: only some of the actors that are up are '
                  'ever offered a crash, so some crash points are never explored' %
                  ('is truncated by %s' % [t.short.split('::')[-1] + '@' + t.span for t in trunc] if trunc else
                   'leaves the loop early' if early else 'does not run over enumerate(state.crashed)'))
    # only actors whose flag is false, keyed by the enumeration index
    okf = True
    for (i, st) in crash_sites:
        idc = origins(b, st['rv']['ops'][0])
        if not idc or not all(not isinstance(c, (str, tuple)) and c.is_('From::from', 'Into::into') for c in idc):
            okf = False
            continue
        for c in idc:
            org = origins(b, c.args[0])
            if not org or not all(isinstance(o, tuple) and o[0] == 'proj' and o[1] is head and o[2][-1] == '0' and
                                  '1' not in o[2][1:] for o in org):
                okf = False
    okn = False
    for sw in b.switches:
        if sw.kind != 'bool' or sw.bb not in body:
            continue
        on = noref(sw.on)
        org = None
        up_label = False          # the edge taken when the flag says "not crashed"
        while on.kind == 'un' and on.key[0] == 'Not':      # `(!crashed).then_some(i)`
            on = noref(on.key[1])
            up_label = not up_label
        if on.kind == 'call' and on.key == head.bb and on.fields()[-1:] == ('.1',):
            org = True
        elif on.kind == 'local':
            og = origins(b, {'k': 'copy', 'place': {'l': on.key, 'p': []}})
            org = bool(og) and all(isinstance(o, tuple) and o[0] == 'proj' and o[1] is head and o[2][-1] == '1'
                                   for o in og)
        if org:
            fe = sw.edges_for(up_label)
            if fe and all(b.edges_dominate(fe, i, frm=[e[1] for e in some]) for (i, st) in crash_sites):
                okn = True
    ctx.check(okf and okn, rule, 'only-up-actors-crash', b0,
              good='a Crash(Id::from(i)) is produced only for actors whose flag is false',
              bad='actions(): Crash actions are not restricted to actors that are up / not keyed by index')


def r5_sender_crash_is_irrelevant(ctx, F, rule='C09-R5'):
    """"All other actors behave as before": a message that was sent before its sender crashed is an ordinary
    in-flight message. Neither the offered actions nor the Deliver step may look at the crash flag of the
    envelope's *source* (dataflow A13: values read from `.src` of an envelope must not reach the index of a read
    of `state.crashed`)."""
    from taint import Taint
    for path, what in ((ACTIONS, 'actions'), (NS, 'next_state')):
        b0 = F.body(path)
        ctx.touched(b0)
        b = F.norm(b0)
        seeds = {}
        for (i, si, st) in b.assigns():
            rv = st['rv']
            ops = [rv.get('op')] if rv['k'] in ('use', 'cast') else [rv.get('place') and {'k': 'copy', 'place': rv['place']}] \
                if rv['k'] == 'ref' else []
            for o in ops:
                if not o or o.get('k') not in ('copy', 'move'):
                    continue
                names = [e.get('name') for e in o['place']['p'] if isinstance(e, dict)]
                if names and names[-1] == 'src' and not st['lhs']['p']:
                    seeds.setdefault(st['lhs']['l'], set()).add('SRC')
        # by-value parts of an aggregate handed to a call: `(env.src, env.dst)` etc. are covered by the assigns above
        T = Taint(b, seeds)
        reads = []
        for c in b.calls:
            if c.is_('slice::get', 'Index::index', 'Vec::get', 'slice::get_unchecked', 'IndexMut::index_mut',
                     'slice::get_mut') and len(c.args) >= 2:
                recv = noref(b.trace(b.val(c.args[0]), ('Deref::deref', 'DerefMut::deref_mut')))
                if recv.fields()[-1:] == ('.crashed',):
                    reads.append(c)
        bad = [c for c in reads if 'SRC' in T.of_operand(c.args[1], c.bb)]
        ctx.check(not bad, rule, 'crash-flag-of-sender-not-consulted@%s' % what, b0,
                  good='%s never reads the crash flag of an envelope\'s sender (%d reads of state.crashed)' %
                       (what, len(reads)),
                  bad='%s reads state.crashed at an index derived from an envelope\'s `src`: whether a message is '
                      'offered / delivered depends on its sender having crashed afterwards - the crash of one actor '
                      'changes what another (live) actor can do' % what, span=bad[0].span if bad else None)


def run(ctx):
    F = ctx.facts
    ctx.doc('C09-R5', 'neither actions() nor next_state() reads state.crashed at an index derived from an envelope\'s src')
    with ctx.rule('C09-R5', 'sender crash'):
        r5_sender_crash_is_irrelevant(ctx, F)
    ctx.doc('C09-R1', 'ActorModelState::{hash, eq} read `crashed` (both operands): crash points are distinct states')
    ctx.doc('C09-R2', 'Crash arm: cancel_all, clear random choices and crashed[i]=true are must-pass-through; '
                      'no handler, no commands')
    ctx.doc('C09-R3', 'on_msg only behind crashed[dst]==false (true => None); Drop/Crash arms apply no commands')
    ctx.doc('C09-R4', 'Crash offered only under count(crashed) < max_crashes, counted over state.crashed, '
                      'for every up actor (no truncating adaptor), keyed by index')
    c04.rule_r1_r2(ctx, F, rule1='C09-R1', rule2='C09-R1b', only_field='crashed')
    with ctx.rule('C09-R2', 'Crash'):
        r2_crash_effects(ctx, F)
    with ctx.rule('C09-R3', 'Deliver'):
        r3_silent(ctx, F)
    with ctx.rule('C09-R4', 'actions'):
        r4_budget(ctx, F)
        r4_budget_is_configured_value(ctx, F)
    # "all other actors behave as before": what a live actor sends goes out (network, history hook) whether or not
    # its destination has crashed
    import c06
    ctx.doc('C06-R3', 'process_commands: every Command::Send consults record_msg_out and enters the network on every '
                      'path of the Send arm')
    with ctx.rule('C06-R3', 'process_commands'):
        c06.r3_commands(ctx, F)
    # crash flags must travel with their actor when a state is canonicalised (symmetry reduction)
    import c10
    ctx.doc('C10-R1', 'representative(): per-actor vectors (incl. `crashed`) are permuted with reindex under one plan')
    with ctx.rule('C10-R1', 'representative'):
        c10.r1_representative(ctx, F)
