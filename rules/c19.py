"""C19 - Explorer, on-demand checking and the Path API agree with the model (structural clauses)."""
import re
from collections import Counter

from actor_rules import noref
from checkers import CB, Spawn, is_arg
from common import bodies_with_closures
from mir import AnchorMissing, V

LEVEL_TEXT = (
    'Static rules over checker::explorer, checker::path and checker::on_demand: states() pushes one '
    'StateView per enumerated action on every path (ignored actions included, with state None), uses '
    'the same last state for actions/format_step/next_state, asks the checker to check each shown '
    'fingerprint, and returns Err on both not-found exits, which the HTTP handler maps to 404; the '
    'status view is fed by the same-named Checker getters; the Path constructors seed from '
    'init_states and step through next_steps/next_states by fingerprint equality (from_actions by '
    'membership / action equality); on-demand check_block performs the same model / visited-set / '
    'discovery events as BFS check_block up to the listed differences; the on-demand worker never '
    'overwrites a non-empty local queue and hands processed work back; its join no longer waits for '
    'the control-flow forwarder. The HTTP/JS layer end to end and ui/app.js are not analysed.')

FLOORS = {'C19-R1': 7, 'C19-R2': 4, 'C19-R3': 6, 'C19-R4': 3, 'C19-R5': 4, 'C19-R6': 3, 'C03-R2': 2, 'C01-R4': 4, 'C05-R11': 3}

STATES = 'checker::explorer::states'
STATUS = 'checker::explorer::status'
PATH = 'checker::path::Path::<State, Action>::'


def r1_states(ctx, F):
    rule = 'C19-R1'
    b = F.body(STATES)
    ctx.touched(b)
    fin = b.calls_to('Path::final_state')
    if len(fin) != 1:
        raise AnchorMissing('states(): Path::final_state')
    some = b.branch(fin[0], 'Some')
    none = b.branch(fin[0], 'None')
    # loop over zipped actions
    ns = b.calls_to('Model::next_state')
    fs = b.calls_to('Model::format_step')
    acts = b.calls_to('Model::actions')
    pushes = [c for c in b.calls_to('Vec::push') if 'StateView' in (c.targs[0] if c.targs else '')]
    if len(ns) != 1 or len(fs) != 1 or len(acts) != 3 or len(pushes) < 1:
        raise AnchorMissing('states(): next_state(%d) format_step(%d) actions(%d) pushes(%d)' %
                            (len(ns), len(fs), len(acts), len(pushes)))
    last = V('call', fin[0].bb, ('as Some', '.0'))
    same = all(noref(b.val(c.args[1])) == last for c in acts + ns + fs)
    ctx.check(same, rule, 'same-last-state', b,
              good='actions, format_step and next_state are all asked about the state the fingerprints denote',
              bad='explorer::states: actions/format_step/next_state are not all evaluated on the state '
                  'reached by the requested fingerprint path')
    # one push per action on every path of an iteration
    loop = [c for c in b.calls_to('Iterator::next') if b.dominates(c.bb, ns[0].bb) and c.bb in b.reach([ns[0].bb])]
    if not loop:
        raise AnchorMissing('states(): action loop')
    head = loop[-1]
    it_some = b.branch(head, 'Some')
    in_loop = [p for p in pushes if p.bb in b.reach([e[1] for e in it_some], cut_blocks=[head.bb])]
    r = b.reach([e[1] for e in it_some], cut_blocks=[p.bb for p in in_loop])
    ctx.check(len(in_loop) >= 1 and head.bb not in r and not any(x in r for x in b.returns), rule,
              'one-view-per-action', b,
              good='every enumerated action yields a StateView (also when the action is ignored)',
              bad='explorer::states: an enumerated action can be skipped without a StateView being pushed: '
                  'the endpoint no longer lists exactly the enabled actions')
    # at most one push per iteration: no push reachable from another push without passing the loop head
    twice = False
    for p in in_loop:
        rr = b.reach([p.target], cut_blocks=[head.bb])
        if any(q.bb in rr for q in in_loop):
            twice = True
    ctx.check(not twice, rule, 'at-most-one-view-per-action', b,
              good='no action yields two views', bad='explorer::states: an action can yield two StateViews')
    # ignored action => state None; taken action => state Some(successor), fingerprint checked
    nsome = b.branch(ns[0], 'Some')
    nnone = b.branch(ns[0], 'None')
    ok_none = ok_some = False
    from taint import origin_vals
    sv_adt = [a_ for a_ in F.adts.values() if a_['path'].endswith('explorer::StateView')]
    st_idx = None
    if sv_adt:
        for fi, fld in enumerate(sv_adt[0]['variants'][0]['fields']):
            if fld['name'] == 'state':
                st_idx = fi
    for p in in_loop:
        v = b.val(p.args[1])
        if st_idx is not None and p.args[1].get('k') in ('copy', 'move'):
            # one view built after an `if`: its `state` is None on the ignored path and Some(successor) otherwise
            kinds = origin_vals(b, p.args[1], extra=[{'f': st_idx}])
            for k_ in kinds:
                if k_.kind == 'call' and k_.key == ns[0].bb and not k_.projs:
                    ok_none = ok_some = True      # the Option returned by next_state, handed on as it is
                if k_.kind == 'agg' and k_.key[2] == 'None':
                    ok_none = True
                elif k_.kind == 'agg' and k_.key[2] == 'Some' and k_.key[3] and noref(k_.key[3][0]).kind == 'call' and \
                        noref(k_.key[3][0]).key == ns[0].bb:
                    ok_some = True
        if v.kind != 'agg':
            continue
        fields = dict(zip(['action', 'outcome', 'state', 'properties', 'svg'], v.key[3]))
        stv = fields.get('state')
        if b.edges_dominate(nnone, p.bb, frm=[ns[0].bb]) and stv is not None and stv.kind == 'agg' and stv.key[2] == 'None':
            ok_none = True
        if b.edges_dominate(nsome, p.bb, frm=[ns[0].bb]) and stv is not None and stv.kind == 'agg' and stv.key[2] == 'Some':
            inner = noref(stv.key[3][0])
            if inner.kind == 'call' and inner.key == ns[0].bb:
                ok_some = True
    ctx.check(ok_none and ok_some, rule, 'ignored-marked-taken-carries-successor', b,
              good='ignored actions are returned with state None, taken ones with the successor state',
              bad='explorer::states: views do not carry Some(successor) for taken and None for ignored actions')
    cf = b.calls_to('Checker::check_fingerprint')
    okcf = False
    for c in cf:
        v = b.val(c.args[1])
        fc = b.call_at(v.key) if v.kind == 'call' else None
        if fc is not None and fc.is_('fingerprint') and b.edges_dominate(nsome, c.bb, frm=[ns[0].bb]):
            a = noref(b.val(fc.args[0]))
            if a.kind == 'call' and a.key == ns[0].bb:
                okcf = True
    ctx.check(okcf, rule, 'successor-fingerprint-requested', b,
              good='the checker is asked to check the fingerprint of every returned successor',
              bad='explorer::states: check_fingerprint is not called with the fingerprint of the successor shown')
    # not-found exits return Err
    errs = [i for (i, si, st) in b.assigns(lambda st: st['lhs']['l'] == 0 and not st['lhs']['p'] and
                                            st['rv']['k'] == 'agg' and st['rv'].get('variant') == 'Err')]
    r = b.reach([e[1] for e in none], cut_blocks=errs)
    ctx.check(len(errs) >= 1 and not any(x in r for x in b.returns), rule, 'unknown-path-is-error', b,
              good='a fingerprint sequence that denotes no execution returns Err',
              bad='explorer::states: when Path::final_state finds no state the function can still return Ok')
    # handler: Err -> 404
    hs = []
    for x in F.bodies.values():
        if x.kind == 'Closure' and x.path.startswith('checker::explorer::serve_checker'):
            xn = F.norm(x)      # the call may sit in a nested `map(|..| states(..))`
            if xn.calls_to('explorer::states') and xn.calls_to('Request::respond'):
                hs.append(xn)
    if len(hs) != 1:
        raise AnchorMissing('serve_checker request handler')
    h = hs[0]
    sc = h.calls_to('explorer::states')[0]
    ee = h.branch(sc, 'Err')
    r404 = []
    for (i, si, st) in h.assigns(lambda st: st['rv']['k'] == 'agg' and st['rv'].get('adt', '').endswith('StatusCode')):
        v = h.val(st['rv']['ops'][0])
        if v.kind == 'const' and v.key == 404:
            r404.append(i)
    blocks = h.reach([e[1] for e in ee], cut_blocks=[c.bb for c in h.calls_to('Request::respond')])
    ctx.check(bool(ee) and any(i in blocks for i in r404), rule, 'error-is-404', h,
              good='an Err from states() is answered with status 404',
              bad='explorer: an Err from states() is not answered with 404')


def r2_status(ctx, F):
    rule = 'C19-R2'
    b = F.body(STATUS)
    ctx.touched(b)
    aggs = [st for (i, si, st) in b.assigns(lambda st: st['rv']['k'] == 'agg' and st['rv'].get('adt', '').endswith('StatusView'))]
    if len(aggs) != 1:
        raise AnchorMissing('status(): StatusView construction')
    st = aggs[0]
    table = {'done': 'Checker::is_done', 'state_count': 'Checker::state_count',
             'unique_state_count': 'Checker::unique_state_count', 'max_depth': 'Checker::max_depth'}
    for fname, op in zip(st['rv']['fields'], st['rv']['ops']):
        if fname not in table:
            continue
        v = b.val(op)
        c = b.call_at(v.key) if v.kind == 'call' else None
        ok = c is not None and c.is_(table[fname])
        ctx.check(ok, rule, 'field-%s' % fname, b,
                  good='StatusView.%s = checker.%s()' % (fname, table[fname].split('::')[-1]),
                  bad='explorer::status: field `%s` is fed by %s, not by %s' %
                      (fname, c.short if c else repr(v), table[fname]))
    gp = F.body('checker::explorer::get_properties')
    ctx.touched(gp)
    gn = F.norm(gp)
    loops = [c for c in gn.calls_to('Iterator::next') if gn.in_cycle(c.bb)]
    # inside the loop over the properties (a `map` closure or a `for` body: same thing in normal form)
    per_prop = lambda pat: any(any(gn.dominates(h.bb, c.bb) for h in loops) for c in gn.calls_to(pat))
    ok = per_prop('Checker::discovery') and per_prop('Path::encode') and len(gn.calls_to('Model::properties')) == 1
    ctx.check(ok, rule, 'properties-with-encoded-discovery', gp,
              good='each property is listed with the encoded path of its discovery',
              bad='explorer::get_properties does not list every property with checker.discovery(name).encode()')


def r3_path_constructors(ctx, F):
    rule = 'C19-R3'
    specs = [('from_fingerprints', 'Model::next_steps', True), ('final_state', 'Model::next_states', True),
             ('from_actions', 'Model::next_steps', False)]
    for name, stepper, by_fp in specs:
        with ctx.rule(rule, name):
            b = F.body(PATH + name)
            ctx.touched(b)
            bs = bodies_with_closures(F, b)
            init = [c for x in bs for c in x.calls_to('Model::init_states')]
            step = [c for x in bs for c in x.calls_to(stepper)]
            ctx.check(len(init) >= 1 and len(step) >= 1, rule, '%s-seeds-and-steps' % name, b,
                      good='%s seeds from init_states and steps through %s' % (name, stepper.split('::')[-1]),
                      bad='Path::%s does not seed from init_states / step through %s' % (name, stepper))
            if by_fp:
                # candidates are selected by comparing fingerprint(candidate) with the expected
                # fingerprint for equality - read in loop normal form (A12), so `find`, `find_map`, a
                # helper or a `for` loop are all the same
                from common import comparisons
                n = F.norm(b)

                def is_fp(v):
                    v = noref(v)
                    c = n.call_at(v.key) if v.kind == 'call' else None
                    return c is not None and c.is_('fingerprint')
                cmp_ = [x for x in comparisons(n) if x[2] in ('eq', 'ne') and (is_fp(x[0]) or is_fp(x[1]))]
                # closures that are not normalised away (e.g. the step of a `try_fold`) are searched too
                for xb in [F.norm(x_) for x_ in F.closures_under(n)]:
                    def is_fp2(v, xb=xb):
                        v = noref(v)
                        c = xb.call_at(v.key) if v.kind == 'call' else None
                        return c is not None and c.is_('fingerprint')
                    cmp_ += [x for x in comparisons(xb) if x[2] in ('eq', 'ne') and (is_fp2(x[0]) or is_fp2(x[1]))]
                ctx.check(len(cmp_) >= 2, rule, '%s-matches-by-fingerprint-equality' % name, b,
                          good='both the initial and the next state are selected by fingerprint equality',
                          bad='Path::%s does not select initial and next states by fingerprint equality '
                              '(%d matching comparisons)' % (name, len(cmp_)))
            else:
                cont = [c for c in b.calls_to('slice::contains', 'Vec::contains')]
                okc = len(cont) == 1 and noref(b.val(cont[0].args[1])).kind == 'arg'
                if not okc:
                    # the same membership test spelled as a search: some element of init_states() == the argument
                    from common import comparisons
                    from taint import origins
                    n = F.norm(b)
                    for (x_, y_, rel_, te_, fe_, bb_) in comparisons(n):
                        cc = n.call_at(bb_)
                        if rel_ != 'eq' or cc is None:
                            continue
                        sides = [origins(n, a_) for a_ in cc.args[:2]]
                        elem = [s_ for s_ in sides if s_ and all(isinstance(o, tuple) and o[0] == 'proj' and
                                                                 o[1].is_('Iterator::next') for o in s_)]
                        param = [s_ for s_ in sides if s_ and all(isinstance(o, tuple) and o[0] == 'arg' for o in s_)]
                        if elem and param and n.calls_to('Model::init_states'):
                            okc = True
                ctx.check(okc, rule, 'from_actions-validates-init', b,
                          good='from_actions checks that the given initial state is one of init_states()',
                          bad='Path::from_actions does not validate the initial state by membership')
                # the step taken has the requested action (equality in the find closure) - and None on miss
                nones = [i for (i, si, st) in b.assigns(lambda st: st['lhs']['l'] == 0 and st['rv']['k'] == 'agg'
                                                        and st['rv'].get('variant') == 'None')]
                # `expr?` returns None through FromResidual
                nones += [c.bb for c in b.calls_to('FromResidual::from_residual')
                          if c.dest['l'] == 0 and not c.dest['p']]
                ctx.check(len(nones) >= 2, rule, 'from_actions-rejects-unknown', b,
                          good='an unknown initial state or action yields None',
                          bad='Path::from_actions cannot reject an unknown initial state / action')
    enc = F.body(PATH + 'encode')
    ok = any(x.calls_to('fingerprint') for x in bodies_with_closures(F, enc))
    ctx.check(ok, rule, 'encode-uses-fingerprints', enc, good='encode() joins the states\' fingerprints',
              bad='Path::encode does not encode fingerprints of its states')


def event_profile(F, cb):
    """multiset of model / visited-set / discoveries / bits events of a check_block"""
    b = cb.b
    ev = Counter()
    pats = {'Model::actions': 'actions', 'Model::next_state': 'next_state', 'Model::within_boundary': 'within_boundary',
            'Model::properties': 'properties', 'DashMap::entry': 'visited-entry', 'VacantEntry::insert': 'visited-insert',
            'DashMap::contains_key': 'discovered?', 'DashMap::insert': 'discover', 'IdSet::remove': 'bit-clear',
            'IdSet::contains': 'bit-test', 'IdSet::iter': 'bit-test', 'CheckerVisitor::visit': 'visit', 'fetch_add': 'count',
            'VecDeque::push_front': 'enqueue-front', 'VecDeque::push_back': 'enqueue-back'}
    for x in bodies_with_closures(F, b):
        for c in x.calls:
            for p, name in pats.items():
                if c.is_(p):
                    ev[name] += 1
    ev['condition-calls'] = len(cb.cond_calls)
    return ev


def r4_od_sibling(ctx, F):
    rule = 'C19-R4'
    bfs = CB(F, 'BFS')
    od = CB(F, 'OD')
    ctx.touched(od.b)
    pb, po = event_profile(F, bfs), event_profile(F, od)
    # (kinds of events, not their syntactic multiplicity: one shared `discoveries.insert` for all arms is the
    # same behaviour as one insert per arm)
    kinds_b, kinds_o = set(k for k, n in pb.items() if n), set(k for k, n in po.items() if n)
    ctx.check(kinds_b == kinds_o, rule, 'same-events-as-bfs', od.b,
              good='on-demand check_block performs the same model/visited/discovery events as BFS (%d kinds)' % len(pb),
              bad='on_demand::check_block differs from bfs::check_block in its events: only-BFS %s, only-OD %s: '
                  'run-to-completion no longer behaves like BFS' % (sorted(kinds_b - kinds_o), sorted(kinds_o - kinds_b)))
    # same enqueue end
    eb = sorted(c.short.split('::')[-1] for c in bfs.enq)
    eo = sorted(c.short.split('::')[-1] for c in od.enq)
    ctx.check(eb == eo, rule, 'same-enqueue-end', od.b, good='successors are enqueued at the same end as BFS',
              bad='on_demand::check_block enqueues with %s, BFS with %s' % (eo, eb))
    # OD worker: after run_to_completion it processes everything pending
    sp = Spawn(F, 'OD')
    w = sp.worker
    rtc = []
    for sw in w.switches:
        if sw.kind == 'variant' and any(isinstance(l, str) and l == 'RunToCompletion' for (l, t) in sw.edges):
            rtc += sw.edges_for('RunToCompletion')
    ok = False
    if rtc:
        # the flag that stops waiting is cleared on that edge
        for (i, si, val) in [(i, si, v) for l in range(len(w.locals)) if w.locals[l]['ty'] == 'bool'
                             for (i, si, v) in w.const_stores(l)]:
            if val == 0 and w.edges_dominate(rtc, i):
                ok = True
    ctx.check(ok, rule, 'run-to-completion-stops-waiting', w,
              good='RunToCompletion clears the wait-for-fingerprints flag',
              bad='on-demand worker: RunToCompletion does not switch the worker out of request-driven mode')


def queue_emptiness(w, queues):
    """Forward must-analysis over the worker closure: for every block, the set of local job queues that are
    KNOWN to be empty on entry (intersection over predecessors; loop fixpoint). Sources of knowledge:
    `VecDeque::new()`, the donor of `a.append(&mut b)`, `mem::swap` (exchanges what is known), the true edge of
    `q.is_empty()`; anything else that gets `&mut q` (check_block, pop into q, push) forgets it.
    Returns (entry sets, function giving the set just before the call terminating a block)."""
    live = sorted(w.live_blocks())

    def qof(operand):
        if operand.get('k') not in ('copy', 'move'):
            return None
        v = noref(w.val(operand))
        if v.kind == 'local' and not v.projs and v.key in queues:
            return v.key
        if v.kind == 'call' and not v.projs:
            # a queue with one definition (`let mut q = VecDeque::new()`) is known by that call
            for q in queues:
                ds = [d for d in w.defs.get(q, []) if d[1] == 'call' or not d[2]['lhs']['p']]
                if len(ds) == 1 and ds[0][1] == 'call' and ds[0][0] == v.key:
                    return q
        if operand['place']['l'] in queues and not [e for e in operand['place']['p'] if e != 'deref']:
            return operand['place']['l']
        return None

    def transfer_stmts(i, known):
        known = set(known)
        for st in w.blocks[i]['stmts']:
            if st['k'] != 'assign' or st['lhs']['p']:
                continue
            l = st['lhs']['l']
            if l in queues:
                rv = st['rv']
                src = qof(rv['op']) if rv['k'] == 'use' else None
                if src is not None and src in known:
                    known.add(l)
                else:
                    known.discard(l)
        return known

    def transfer_term(i, known):
        """-> {successor: known set}"""
        known = set(known)
        t = w.blocks[i]['term']
        out = {}
        if t['k'] == 'call':
            c = w.call_at(i)
            qs = [qof(a) for a in t['args']]
            if c is not None and c.is_('VecDeque::append') and len(qs) >= 2 and qs[0] is not None and qs[1] is not None:
                if qs[1] not in known:
                    known.discard(qs[0])
                known.add(qs[1])
            elif c is not None and c.is_('mem::swap') and len(qs) >= 2 and qs[0] is not None and qs[1] is not None:
                a_, b_ = qs[0] in known, qs[1] in known
                known.discard(qs[0]); known.discard(qs[1])
                if b_:
                    known.add(qs[0])
                if a_:
                    known.add(qs[1])
            elif c is not None and c.is_('VecDeque::is_empty', 'VecDeque::len'):
                pass
            else:
                for a, q in zip(t['args'], qs):
                    if q is not None and w.locals[a['place']['l']]['ty'].startswith('&mut'):
                        known.discard(q)
                    elif q is not None and a.get('k') == 'move' and not a['place']['p'] and a['place']['l'] == q:
                        known.discard(q)
            if not t['dest']['p'] and t['dest']['l'] in queues:
                if c is not None and c.is_('VecDeque::new', 'Default::default', 'VecDeque::with_capacity'):
                    known.add(t['dest']['l'])
                else:
                    known.discard(t['dest']['l'])
        for s_ in w.succ[i]:
            out[s_] = set(known)
        # the true edge of `q.is_empty()`
        return out
    # is_empty edges
    empty_edges = {}
    for c in w.calls_to('VecDeque::is_empty'):
        q = qof(c.args[0])
        if q is None:
            continue
        for e in w.branch(c, True):
            empty_edges.setdefault(e, set()).add(q)
    entry = dict((i, None) for i in live)
    entry[0] = set()
    changed = True
    rounds = 0
    while changed and rounds < 60:
        changed = False
        rounds += 1
        for i in live:
            if entry[i] is None:
                continue
            k = transfer_stmts(i, entry[i])
            for s_, ks in transfer_term(i, k).items():
                if s_ not in entry:
                    continue
                ks = ks | empty_edges.get((i, s_), set())
                new = ks if entry[s_] is None else (entry[s_] & ks)
                if new != entry[s_]:
                    entry[s_] = new
                    changed = True

    def before_term(i):
        return transfer_stmts(i, entry.get(i) or set())
    return entry, before_term, qof


def r5_worker_queue(ctx, F, rule='C19-R5', with_join=True):
    """worker-local job queues are never overwritten while they may be non-empty"""
    for strat in ('BFS', 'DFS', 'OD'):
        with ctx.rule(rule, strat):
            sp = Spawn(F, strat)
            w = sp.worker
            ctx.touched(w)
            cc = sp.check_call
            # the queue handed to check_block
            qv = noref(w.val(cc.args[3]))
            queues = set()
            for l, ld in enumerate(w.locals):
                if ld['ty'].startswith('std::collections::VecDeque<(') and 'NonZero<usize>' in ld['ty']:
                    if any(d['place']['l'] == l and not d['place']['p'] for d in w.j['debug']):
                        queues.add(l)
            if not queues:
                raise AnchorMissing('%s worker: local job queues' % strat)
            entry_empty, empty_before_term, qof = queue_emptiness(w, queues)
            bad = []
            # `mem::swap(a, b)` of two job queues moves jobs only if one side is known to be empty (then it is an
            # append); otherwise the contents change places - the queue about to be processed is replaced
            for c in w.calls_to('mem::swap'):
                qa, qb = (qof(c.args[0]), qof(c.args[1])) if len(c.args) >= 2 else (None, None)
                if qa is None or qb is None:
                    continue
                known = empty_before_term(c.bb)
                if qa not in known and qb not in known:
                    bad.append(('%s<->%s' % (w.debug_name(qa), w.debug_name(qb)), c.span))
            for q in sorted(queues):
                qdefs = [d for d in w.defs.get(q, []) if d[1] == 'call' or not d[2]['lhs']['p']]
                if len(qdefs) < 2:
                    continue  # a plain `let`: initialised once, never overwritten
                for (i, si, st) in qdefs:
                    if all(w.dominates(i, o[0]) for o in qdefs):
                        continue  # the initialisation
                    if si == 'call':
                        c = w.call_at(i)
                        if c.is_('VecDeque::new'):
                            continue
                        src = c
                    else:
                        rv = st['rv']
                        if st['lhs']['p']:
                            continue
                        v = w.val(rv['op']) if rv['k'] == 'use' else None
                        src = w.call_at(v.key) if v is not None and v.kind == 'call' else None
                        if src is not None and src.is_('VecDeque::new'):
                            continue
                    # any other whole assignment must be guarded by is_empty(queue) == true
                    guarded = False
                    for c in w.calls_to('VecDeque::is_empty'):
                        rv_ = noref(w.val(c.args[0]))
                        if rv_.kind == 'local' and rv_.key == q:
                            te = w.branch(c, True)
                            if te and w.edges_dominate(te, i, frm=[c.bb]) and w.dominates(c.bb, i):
                                guarded = True
                    if not guarded and si != 'call' and q in (entry_empty.get(i) or set()):
                        guarded = True        # known empty by the emptiness analysis
                    if not guarded and si == 'call' and q in empty_before_term(i):
                        guarded = True
                    if not guarded:
                        bad.append((w.debug_name(q), st['span'] if si != 'call' else w.call_at(i).span))
            ctx.check(not bad, rule, 'queue-never-overwritten-while-non-empty', w,
                      good='a worker-local queue is only (re)assigned when it is empty',
                      bad='%s worker: the local job queue %s is overwritten on a path where it may still hold '
                          'jobs: those pending states are already marked visited and are never evaluated' %
                          (strat, bad))
            if strat == 'OD':
                # everything left in the processed queue is handed back to `pending`
                app = [c for c in w.calls_to('VecDeque::append') if w.dominates(cc.bb, c.bb)]
                ok = any(noref(w.val(c.args[1])) == qv for c in app)
                movers = [c.bb for c in app if noref(w.val(c.args[1])) == qv]
                # ... or exchanged with a queue that is known to be empty (then the swap is that append)
                for c in w.calls_to('mem::swap'):
                    if not w.dominates(cc.bb, c.bb) or len(c.args) < 2:
                        continue
                    qa, qb = qof(c.args[0]), qof(c.args[1])
                    qvq = qof(cc.args[3])
                    other = qa if (qb is not None and qb == qvq) else qb if (qa is not None and qa == qvq) else None
                    if other is not None and other in empty_before_term(c.bb):
                        movers.append(c.bb)
                        ok = True
                r = w.reach([cc.target], cut_blocks=movers)
                handed_back = ok and cc.bb not in r
                if not handed_back and qof(cc.args[3]) is None:
                    # the block may be run on one of several queues, chosen by a flag (`let block = if in_place
                    # { &mut pending } else { &mut targetted }`): per choice, either that queue is the one every
                    # other choice is appended to, or it is appended back on the paths that chose it
                    cur = cc.args[3]['place']['l'] if cc.args[3]['k'] in ('copy', 'move') else None
                    refs = []
                    for _ in range(4):
                        refs = [d for d in w.defs.get(cur, []) if d[1] != 'call' and d[2]['rv']['k'] == 'ref' and
                                not d[2]['lhs']['p']] if cur is not None else []
                        if len(refs) == 1 and refs[0][2]['rv']['place']['p'] == ['deref']:
                            cur = refs[0][2]['rv']['place']['l']
                            continue
                        break
                    def queue_of_place(pl, depth=0):
                        if not pl['p']:
                            return pl['l'] if pl['l'] in queues else None
                        if pl['p'] == ['deref'] and depth < 4:
                            ds_ = [d for d in w.defs.get(pl['l'], []) if d[1] == 'call' or not d[2]['lhs']['p']]
                            if len(ds_) == 1 and ds_[0][1] != 'call' and ds_[0][2]['rv']['k'] == 'ref':
                                return queue_of_place(ds_[0][2]['rv']['place'], depth + 1)
                        return None
                    choices = [(d[0], queue_of_place(d[2]['rv']['place'])) for d in refs]
                    choices = [(i, q) for (i, q) in choices if q is not None]
                    per = {}
                    if len(choices) >= 2 and len(choices) == len(refs):
                        named = set(d['place']['l'] for d in w.j['debug'] if not d['place']['p'])

                        def raw_flag(bb):
                            """(user variable, parity) a bool SwitchInt tests: the variable must be assigned once"""
                            t = w.blocks[bb]['term']
                            d = t.get('discr', {})
                            if d.get('k') not in ('copy', 'move') or d['place']['p']:
                                return None
                            l, par = d['place']['l'], 0
                            for _ in range(6):
                                ds_ = w.defs.get(l, [])
                                if len(ds_) != 1:
                                    return None
                                if l in named:
                                    return (l, par)
                                if ds_[0][1] == 'call':
                                    return None
                                rv_ = ds_[0][2]['rv']
                                o_ = rv_.get('op') if rv_['k'] == 'use' else rv_.get('a') if rv_['k'] == 'un' and \
                                    rv_.get('op') == 'Not' else None
                                if not isinstance(o_, dict) or o_.get('k') not in ('copy', 'move') or o_['place']['p']:
                                    return None
                                par ^= 1 if rv_['k'] == 'un' else 0
                                l = o_['place']['l']
                            return None

                        def raw_targets(bb, discr_is_zero):
                            t = w.blocks[bb]['term']
                            zero = [tb for (val, tb) in t['targets'] if val == 0]
                            return set(zero) if discr_is_zero else {t['otherwise']}
                        flagged = dict((sw.bb, raw_flag(sw.bb)) for sw in w.switches if sw.kind == 'bool')
                        flagged = dict((k, v) for k, v in flagged.items() if v is not None)
                        for (i, q) in choices:
                            allowed = {}
                            for bb_, (fl, par) in flagged.items():
                                if not w.dominates(bb_, i):
                                    continue
                                for fval in (0, 1):
                                    ts = raw_targets(bb_, (fval ^ par) == 0)
                                    oth = raw_targets(bb_, (fval ^ par) != 0)
                                    if w.edges_dominate([(bb_, t_) for t_ in ts], i) and \
                                            not w.edges_dominate([(bb_, t_) for t_ in oth], i):
                                        # this choice is made under flag == fval: so are the later tests of it
                                        for b2, (fl2, par2) in flagged.items():
                                            if fl2 == fl and w.dominates(cc.bb, b2):
                                                allowed[b2] = raw_targets(b2, (fval ^ par2) == 0)
                            mv = [c for c in app if qof(c.args[1]) == q]
                            cutb = set(c.bb for c in mv)
                            seen_, todo_ = {cc.target}, [cc.target]
                            while todo_:
                                x_ = todo_.pop()
                                if x_ in cutb:
                                    continue
                                for t_ in w.succ[x_]:
                                    if x_ in allowed and t_ not in allowed[x_]:
                                        continue
                                    if t_ not in seen_:
                                        seen_.add(t_)
                                        todo_.append(t_)
                            r_i = seen_
                            per[q] = (bool(mv) and cc.bb not in r_i, set(qof(c.args[0]) for c in mv))
                        for h in per:
                            if all(q == h or (ok_q and dst == {h}) for q, (ok_q, dst) in per.items()):
                                handed_back = True
                ctx.check(handed_back, rule, 'processed-queue-handed-back', w,
                          good='after a block the remaining/new jobs are appended back to `pending`',
                          bad='on-demand worker: jobs left in the processed queue are not appended back to '
                              '`pending` before the next block')
    if not with_join:
        return
    # OD join: the forwarder is not joined (C05-R7 instance)
    import c05
    with ctx.rule(rule, 'OD-join'):
        sp, ths = c05.joined_threads(F, 'OD')
        fw = [cl for (cl, sc) in ths if not any(u['ty'].startswith('job_market::JobBroker<') for u in cl.j.get('upvars', []))]
        ctx.check(not fw, rule, 'forwarder-not-joined', sp.b,
                  good='only worker threads are joined by the on-demand checker',
                  bad='on-demand spawn: a thread without a JobBroker (the control-flow forwarder) is joined: '
                      'join() never returns')


def r6_next_steps(ctx, F, rule='C19-R6'):
    """Model::next_steps (the step relation behind every rebuilt path): each yielded (action, state)
    pair consists of an action and of next_state(last_state, that same action)."""
    from taint import origins
    b0 = F.body('Model::next_steps')
    ctx.touched(b0)
    b = F.norm(b0)
    ns = b.calls_to('Model::next_state')
    if not ns:
        others = b.calls_to('Model::next_states')
        for inst in ('successor-of-the-listed-action', 'pair-is-action-with-its-own-successor',
                     'no-filtered-successor-list'):
            ctx.bad(rule, inst, b0,
                    'Model::next_steps never calls next_state for the action it lists%s: labels and successors '
                    'of rebuilt paths are misaligned as soon as the model ignores an action' %
                    (' (it takes the states from next_states(), which has no entry for ignored actions)'
                     if others else ''))
        return
    if len(ns) != 1:
        raise AnchorMissing('Model::next_steps: expected one Model::next_state call, found %d' % len(ns))
    ns = ns[0]
    heads = [c for c in b.calls_to('Iterator::next') if b.in_cycle(c.bb) and b.dominates(c.bb, ns.bb)]
    if not heads:
        raise AnchorMissing('Model::next_steps: loop over the actions')
    head = max(heads, key=lambda c: len([1 for x in heads if b.dominates(x.bb, c.bb)]))

    def from_head(op):
        org = origins(b, op)
        return bool(org) and all(isinstance(o, tuple) and o[0] == 'proj' and o[1] is head for o in org)
    ok_act = from_head(ns.args[2]) and noref(b.val(ns.args[1])) == V('arg', 2)
    ctx.check(ok_act, rule, 'successor-of-the-listed-action', b0,
              good='next_state is asked about last_state and the action of the current iteration',
              bad='Model::next_steps does not compute next_state(last_state, action) for the action it is listing')
    pairs = [(i, st) for (i, si, st) in b.assigns(lambda st: st['rv']['k'] == 'agg' and st['rv'].get('agg') == 'tuple'
                                                  and len(st['rv']['ops']) == 2) if b.dominates(ns.bb, i)]
    ok = bool(pairs)
    for (i, st) in pairs:
        a_op, s_op = st['rv']['ops']
        so = origins(b, s_op)
        if not from_head(a_op) or not so or not all(isinstance(o, tuple) and o[0] == 'proj' and o[1] is ns for o in so):
            ok = False
    ctx.check(ok, rule, 'pair-is-action-with-its-own-successor', b0,
              good='every yielded pair is (action of this iteration, next_state of that action)',
              bad='Model::next_steps pairs an action with a state that is not next_state(last_state, that action): '
                  'rebuilt paths carry wrong action labels / follow wrong successors once an action is ignored')
    others = b.calls_to('Model::next_states')
    ctx.check(not others, rule, 'no-filtered-successor-list', b0,
              good='the successor list is not taken from next_states() (which drops ignored actions)',
              bad='Model::next_steps zips the action list with next_states(), which has no entry for ignored '
                  'actions: labels and successors are misaligned after the first ignored action')


def run(ctx):
    F = ctx.facts
    ctx.doc('C19-R1', 'states(): same last state for actions/format_step/next_state; exactly one StateView per '
                      'action on every path; None/Some(successor); check_fingerprint(successor); Err on unknown '
                      'paths, mapped to 404')
    ctx.doc('C19-R2', 'StatusView fields fed by same-named Checker getters; properties with encoded discoveries')
    ctx.doc('C19-R3', 'Path constructors: init_states + next_steps/next_states by fingerprint equality; '
                      'from_actions validates init by membership and rejects unknown input')
    ctx.doc('C19-R4', 'on_demand::check_block has the same event multiset and enqueue end as bfs::check_block; '
                      'RunToCompletion leaves request-driven mode')
    ctx.doc('C19-R5', 'worker-local queues are never overwritten while non-empty; OD hands processed work back; '
                      'OD join does not wait for the forwarder')
    with ctx.rule('C19-R1', 'states'):
        r1_states(ctx, F)
    with ctx.rule('C19-R2', 'status'):
        r2_status(ctx, F)
    r3_path_constructors(ctx, F)
    with ctx.rule('C19-R4', 'OD'):
        r4_od_sibling(ctx, F)
    r5_worker_queue(ctx, F)
    # "run to completion behaves like BFS" includes its eventually verdicts: the terminal flag of the
    # on-demand check_block obeys the same rule as BFS's (C03-R2)
    import c03
    from checkers import CB as _CB
    ctx.doc('C03-R2', 'on-demand: the terminal flag is false on every path from an in-boundary successor to the '
                      'terminal test, and set to true only before the successor loop')
    with ctx.rule('C03-R2', 'OD'):
        c03.r2_terminal_flag(ctx, _CB(F, 'OD'))
    ctx.doc('C19-R6', 'Model::next_steps pairs every action with next_state(last_state, that action)')
    with ctx.rule('C19-R6', 'next_steps'):
        r6_next_steps(ctx, F)
    # "once told to run to completion, finishes like BFS": every job the on-demand worker holds is evaluated and
    # expanded - the block takes its jobs out of the queue without losing the rest
    import c01
    ctx.doc('C01-R4', 'on-demand check_block: from the dequeue every path to the next dequeue / return passes '
                      'Model::actions or a sanctioned exit; the local batch is exactly what was drained')
    with ctx.rule('C01-R4', 'OD'):
        c01.r4_expand_or_sanctioned(ctx, _CB(F, 'OD'))
    # requests reach the workers: the control path of the on-demand checker is lossless and complete
    import c05
    ctx.doc('C05-R11', 'on-demand control path: blocking sends only, the forwarder sends every message on every worker '
                       'channel, workers wait in a blocking recv')
    with ctx.rule('C05-R11', 'on_demand'):
        c05.r11_control_messages_lossless(ctx, F)
