"""Role-based lookup of functions whose names are not part of any public interface, so that a
rename does not turn into an anchor-missing alarm.  Name first, role as fallback."""
from mir import AnchorMissing

JM = 'job_market::'


def _field_touch(b, field):
    for blk in b.blocks:
        if blk['cleanup']:
            continue
        for st in blk['stmts']:
            if st['k'] == 'assign':
                for pl_ in (st['lhs'],):
                    if any(isinstance(e, dict) and e.get('name') == field for e in pl_['p']):
                        return True
                rv = st['rv']
                pls = []
                if rv['k'] in ('ref', 'discr', 'rawptr'):
                    pls.append(rv['place'])
                if rv['k'] == 'use' and rv['op']['k'] in ('copy', 'move'):
                    pls.append(rv['op']['place'])
                for p_ in pls:
                    if any(isinstance(e, dict) and e.get('name') == field for e in p_['p']):
                        return True
    return False


ROLES = {
    'pop': (r'^job_market::JobBroker::<Job>::pop$', lambda b: bool(b.calls_to('Condvar::wait'))),
    'split_and_push': (r'^job_market::JobBroker::<Job>::split_and_push$', lambda b: bool(b.calls_to('VecDeque::split_off'))),
    'push': (r'^job_market::JobBroker::<Job>::push$',
             lambda b: bool(b.calls_to('Vec::push')) and not b.calls_to('VecDeque::split_off') and
             not b.calls_to('Condvar::wait') and bool(b.calls_to('Condvar::notify_one'))),
    'is_open': (r'^job_market::JobBroker::<Job>::is_open$',
                lambda b: b.locals[0]['ty'] == 'bool' and _field_touch(b, 'open') and not _field_touch(b, 'open_count')
                and bool(b.calls_to('Mutex::lock'))),
    'is_closed': (r'^job_market::JobBroker::<Job>::is_closed$',
                  lambda b: b.locals[0]['ty'] == 'bool' and _field_touch(b, 'open') and _field_touch(b, 'open_count')),
    'new': (r'^job_market::JobBroker::<Job>::new$', lambda b: bool(b.calls_to('Condvar::new'))),
    'drop': (r'^<job_market::JobBroker<Job> as std::ops::Drop>::drop$', lambda b: False),
}


def jm(F, role):
    rx, pred = ROLES[role]
    return F.resolve(rx, pred, 'job market `%s`' % role, scope=JM)


def calls_role(F, body, *roles):
    """calls in `body` whose callee is the function playing one of the roles"""
    paths = set()
    for r in roles:
        try:
            paths.add(jm(F, r).path)
        except AnchorMissing:
            pass
    return [c for c in body.calls if c.callee in paths]


def process_commands(F):
    return F.resolve(r'^actor::model::ActorModel::<A, C, H>::process_commands$',
                     lambda b: any(sw.kind == 'variant' and
                                   set(l for (l, t) in sw.edges if isinstance(l, str)) >= {'Send', 'SetTimer', 'CancelTimer', 'ChooseRandom'}
                                   for sw in b.switches) and bool(b.calls_to('Network::send')),
                     'ActorModel::process_commands', scope='actor::model::')


def reconstruct_path(F, mod):
    return F.resolve(r'^checker::%s::reconstruct_path$' % mod,
                     lambda b: bool(b.calls_to('Path::from_fingerprints')) and bool(b.calls_to('DashMap::get')),
                     'reconstruct_path of checker::%s' % mod, scope='checker::%s::' % mod)


def is_reconstruct_path_call(F, c):
    for mod in ('bfs', 'on_demand'):
        try:
            if c.callee == reconstruct_path(F, mod).path:
                return True
        except AnchorMissing:
            pass
    return False
