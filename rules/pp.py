"""Pretty printer for MIR facts (debugging and --replay output)."""
import sys


def pl(p):
    s = '_%d' % p['l']
    for e in p['p']:
        if e == 'deref':
            s = '(*%s)' % s
        elif isinstance(e, dict) and 'f' in e:
            s = '%s.%s' % (s, e['name'] or e['f'])
        elif isinstance(e, dict) and 'downcast' in e:
            s = '(%s as %s)' % (s, e['downcast'])
        else:
            s = '%s[%s]' % (s, e)
    return s


def op(o):
    if o['k'] in ('copy', 'move'):
        return o['k'] + ' ' + pl(o['place'])
    if o['k'] == 'const':
        if 'fn' in o:
            return 'fn ' + o.get('fn_resolved', o['fn'])
        if 'promoted' in o:
            return 'promoted[%d]' % o['promoted']
        return 'const ' + str(o.get('val', o.get('dbg')))
    return str(o)


def rv(r):
    k = r['k']
    if k == 'use':
        return op(r['op'])
    if k == 'ref':
        return ('&mut ' if r['mut'] else '&') + pl(r['place'])
    if k == 'agg':
        return 'agg %s %s(%s)' % (r.get('adt', r.get('closure', r['agg'])), r.get('variant', ''),
                                  ', '.join(op(o) for o in r['ops']))
    if k == 'bin':
        return '%s(%s, %s)' % (r['op'], op(r['a']), op(r['b']))
    if k == 'un':
        return '%s(%s)' % (r['op'], op(r['a']))
    if k == 'discr':
        return 'discr(%s)' % pl(r['place'])
    if k == 'cast':
        return 'cast[%s](%s)' % (r['kind'], op(r['op']))
    return str(r)


def term(t):
    k = t['k']
    sp = t['span'].split('/')[-1]
    if k == 'call':
        return '%s = CALL %s (%s) -> %s  [%s]%s' % (
            pl(t['dest']), t['callee'] if 'fnptr' not in t else 'indirect ' + op(t['fnptr']),
            ', '.join(op(a) for a in t['args']), t['target'], sp, ' exp' if t['exp'] else '')
    if k == 'switch':
        return 'switch %s %s else %s' % (op(t['discr']), t['targets'], t['otherwise'])
    if k == 'drop':
        return 'drop %s (%s) -> %s' % (pl(t['place']), t['ty'][:60], t['target'])
    if k == 'assert':
        return 'assert %s == %s -> %s' % (op(t['cond']), t['expected'], t['target'])
    return '%s %s' % (k, t.get('target', ''))


def dump_body(b, out=sys.stdout, blocks=None, with_locals=False):
    j = b.j if hasattr(b, 'j') else b
    print('fn %s  [%s]' % (j['path'], j['span']), file=out)
    if with_locals:
        for i, l in enumerate(j['locals']):
            print('  _%d: %s' % (i, l['ty'][:120]), file=out)
    print('  debug:', ', '.join('%s=%s' % (d['name'], pl(d['place'])) for d in j['debug']), file=out)
    for i, bl in enumerate(j['blocks']):
        if blocks is not None and i not in blocks:
            continue
        if bl['cleanup']:
            continue
        print('  bb%d:' % i, file=out)
        for st in bl['stmts']:
            if st['k'] == 'assign':
                print('      %s = %s' % (pl(st['lhs']), rv(st['rv'])), file=out)
            else:
                print('      %s' % st, file=out)
        print('      ' + term(bl['term']), file=out)


if __name__ == '__main__':
    import re
    from mir import Facts
    f = Facts(sys.argv[1])
    for b in f.find_bodies(sys.argv[2]):
        dump_body(b, with_locals='-l' in sys.argv)
