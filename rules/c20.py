"""C20 - dense maps (and the hash of vector clocks): structural clauses only."""
import re

import c04
import c10
from actor_rules import noref
from common import bodies_with_closures
from mir import AnchorMissing, V

LEVEL_TEXT = (
    'Static rules over util::densenatmap: construction from (key, value) pairs sorts the pairs by key '
    '(stable sort) before the position check and a key that differs from its position diverges (gap / '
    'duplicate rejection, order independence); insert panics above len, appends at len and swaps '
    'below; get/index use usize::from(key) on the values vector; rewrite re-keys through the pair '
    'collector. For VectorClock only the Hash/Eq structural clauses of C04 apply (length-prefixed '
    'slice hash, same field read by both). The algebraic laws of VectorClock (reflexivity, '
    'antisymmetry, transitivity, least upper bound, strict increase, comparison across different '
    'lengths) are value-level statements that no structural rule here decides: a change that breaks '
    'them while keeping the shape is NOT detected.')

FLOORS = {'C20-R1': 3, 'C20-R2': 3, 'C20-R3': 2, 'C10-R5': 2, 'C20-R4': 7}

DNM = 'util::densenatmap::DenseNatMap'


def run(ctx):
    F = ctx.facts
    ctx.doc('C20-R1', 'FromIterator<(K, V)>: stable sort by key dominates the position check; position mismatch diverges')
    ctx.doc('C20-R2', 'insert: index > len diverges; index == len pushes and returns None; otherwise swaps and returns Some')
    ctx.doc('C20-R3', 'get / index address values[usize::from(key)]')
    ctx.doc('C10-R5', 'rewrite collects (rewritten key, rewritten value) pairs')
    ctx.doc('C20-R4', 'VectorClock: Hash feeds a length-prefixed slice on every path; Hash and PartialEq read the same field')
    with ctx.rule('C20-R1', 'from_iter pairs'):
        bs = [x for x in F.bodies.values() if x.kind != 'Closure' and 'FromIterator<(K, V)>' in x.path and
              x.path.endswith('::from_iter') and DNM in x.path]
        if len(bs) != 1:
            raise AnchorMissing('DenseNatMap FromIterator<(K, V)>::from_iter (found %d)' % len(bs))
        b = bs[0]
        ctx.touched(b)
        # read in normal form (A12; a new helper such as `dense_values(sorted_pairs)` is spliced in): ONE sort, a
        # stable one, by the pair's key; after it a pass over the sorted pairs that compares each key with its
        # position (the enumerate index, or the length of the output built so far) and diverges on a mismatch
        from common import comparisons
        from taint import origins
        nb = F.norm(b)
        bodies_ = bodies_with_closures(F, nb)
        sorts = [c for c in nb.calls if re.search(r'::sort\w*$', c.short)]
        stable = [c for c in sorts if 'unstable' not in c.short]
        checks = []      # (test block, mismatch edges, body)
        for x in bodies_:
            for (p_, q_, rel, te, fe, bb) in comparisons(x):
                if rel not in ('eq', 'ne'):
                    continue
                mis = te if rel == 'ne' else fe
                r_ = x.reach([e[1] for e in mis]) if mis else set()
                if mis and not any(y in r_ for y in x.returns):
                    checks.append((bb, mis, x, p_, q_))
        in_order = len(stable) == 1 and len(sorts) == 1 and any(
            x is nb and nb.dominates(stable[0].bb, bb) and nb.in_cycle(bb) for (bb, mis, x, p_, q_) in checks)
        if not in_order and len(stable) == 1 and len(sorts) == 1:
            # the check may sit in a closure that runs after the sort (`.map(|(i, (k, v))| { if i != k {panic} v })`)
            for (bb, mis, x, p_, q_) in checks:
                if x is not nb:
                    try:
                        parent, pbb, st_ = F.closure_creation(x)
                    except AnchorMissing:
                        continue
                    if parent.path == nb.path or parent is b:
                        in_order = True
        ctx.check(in_order, 'C20-R1', 'sorted-before-position-check', b,
                  good='pairs are collected, sorted by key, and only then checked against their position',
                  bad='DenseNatMap::from_iter<(K, V)> does not sort the pairs by key before the position check: '
                      'construction depends on the order of the pairs')
        # the sort key is the pair's key
        okk = False
        for c in stable:
            cv = nb.val(c.args[1]) if len(c.args) > 1 else None
            cl = F.bodies.get(cv.key[1]) if cv is not None and cv.kind == 'agg' and cv.key[0] == 'closure' else None
            if cl is not None:
                for (i_, si, st) in cl.assigns(lambda st: st['lhs']['l'] == 0 and not st['lhs']['p']):
                    v = noref(cl.val(st['rv']['op'])) if st['rv']['k'] == 'use' else None
                    if v is not None and v.kind == 'arg' and v.fields() == ('.0',):
                        okk = True
        ctx.check(okk, 'C20-R1', 'sort-key-is-key', b, good='the sort key is the pair\'s key',
                  bad='DenseNatMap::from_iter<(K, V)> sorts by something other than the key')
        # the check compares a key with a position, and a mismatch diverges
        def is_key(x, v):
            v = noref(v)
            if v.kind == 'arg' and '.0' in v.fields():
                return True
            if v.kind == 'call':
                cc = x.call_at(v.key)
                return cc is not None and (cc.is_('Iterator::next') and v.fields()[-1:] == ('.0',) or 'From' in cc.callee)
            if v.kind == 'local':
                from taint import vals_of
                vs = vals_of(x, v)
                return bool(vs) and all(y.kind != 'local' and is_key(x, y) for y in vs)
            return False

        def is_pos(x, v):
            v = noref(v)
            if v.kind == 'arg':
                return True
            cc = x.call_at(v.key) if v.kind == 'call' else None
            return cc is not None and (cc.is_('Vec::len') or cc.is_('Iterator::next'))
        ok = any((is_key(x, p_) and is_pos(x, q_)) or (is_key(x, q_) and is_pos(x, p_)) for (bb, mis, x, p_, q_) in checks)
        ctx.check(ok, 'C20-R1', 'gap-rejected', b,
                  good='a key that differs from its position (gap or duplicate) panics',
                  bad='DenseNatMap::from_iter<(K, V)> accepts a key that differs from its position: gaps or '
                      'duplicate keys silently shift values to other keys')
    with ctx.rule('C20-R2', 'insert'):
        b = F.body(DNM + '::<K, V>::insert')
        ctx.touched(b)
        from common import edges_where

        def is_len(v):
            v = noref(v)
            return v.kind == 'call' and b.call_at(v.key) is not None and b.call_at(v.key).is_('Vec::len')

        def is_idx(v):
            v = noref(v)
            return v.kind == 'call' and b.call_at(v.key) is not None and \
                ('From' in b.call_at(v.key).callee or 'Into' in b.call_at(v.key).callee)
        gt = edges_where(b, is_idx, is_len, 'gt')
        eq = edges_where(b, is_idx, is_len, 'eq')
        below = edges_where(b, is_idx, is_len, 'lt') + edges_where(b, is_idx, is_len, 'ne')
        le = edges_where(b, is_idx, is_len, 'le')
        # a slot found by position is a position below len: the `Some` edge of `values.get_mut(index)`; its `None`
        # edge is index >= len, from which `index == len` carves out the append
        for c in b.calls_to('slice::get_mut', 'slice::get', 'Vec::get_mut', 'Vec::get'):
            if len(c.args) == 2 and is_idx(b.val(c.args[1])) and \
                    noref(b.trace(b.val(c.args[0]), ('DerefMut::deref_mut', 'Deref::deref', 'Vec::as_mut_slice'))
                          ).fields()[-1:] == ('.values',):
                below = below + b.branch(c, 'Some')
        # "index > len" may be established by one test or be what is left after `<` and `==` were ruled out: with
        # every edge that establishes <, == or <= removed, no return (and no push / swap) is reachable
        r_gt = b.reach([0], cut_edges=below + eq + le)
        ok = bool(gt or (below and eq)) and not any(x in r_gt for x in b.returns) and \
            not any(c.bb in r_gt for c in b.calls_to('Vec::push', 'mem::swap', 'mem::replace'))
        ctx.check(ok, 'C20-R2', 'insert-beyond-len-panics', b,
                  good='insert with index > len panics',
                  bad='DenseNatMap::insert does not reject an index beyond len: the map would get a gap')
        pushes = b.calls_to('Vec::push')
        swaps = b.calls_to('mem::swap', 'mem::replace')
        # the push happens only under index == len, the swap only under index < len (or != after > was excluded)
        ok = bool(eq) and bool(below) and len(pushes) == 1 and len(swaps) == 1 and \
            pushes[0].bb not in b.reach([0], cut_edges=eq) and swaps[0].bb not in b.reach([0], cut_edges=below)
        ctx.check(ok, 'C20-R2', 'insert-appends-or-swaps', b,
                  good='index == len appends, index < len swaps the value in place',
                  bad='DenseNatMap::insert does not append exactly at len and swap below it')
        nones = [i for (i, si, st) in b.assigns(lambda st: st['lhs']['l'] == 0 and st['rv']['k'] == 'agg' and st['rv'].get('variant') == 'None')]
        somes = [i for (i, si, st) in b.assigns(lambda st: st['lhs']['l'] == 0 and st['rv']['k'] == 'agg' and st['rv'].get('variant') == 'Some')]
        ok = bool(pushes) and bool(swaps) and any(b.dominates(pushes[0].bb, i) for i in nones) and \
            any(b.dominates(swaps[0].bb, i) for i in somes)
        ctx.check(ok, 'C20-R2', 'insert-result', b, good='insert returns None on append and Some(previous) on overwrite',
                  bad='DenseNatMap::insert returns the wrong previous-value indication')
    with ctx.rule('C20-R3', 'lookup'):
        for name, pat in (('get', ('slice::get', 'Vec::get')), ('index', ('Index::index',))):
            bs = [x for x in F.bodies.values() if x.kind != 'Closure' and DNM in x.path and x.path.endswith('::' + name)
                  and 'Iter' not in x.path]
            if not bs:
                raise AnchorMissing('DenseNatMap::%s' % name)
            b = bs[0]
            ctx.touched(b)
            cs = b.calls_to(*pat)
            ok = False
            for c in cs:
                recv = noref(b.trace(b.val(c.args[0]), ('Deref::deref',)))
                iv = noref(b.val(c.args[1]))
                ic = b.call_at(iv.key) if iv.kind == 'call' else None
                if recv.fields()[-1:] == ('.values',) and ic is not None and 'From' in ic.callee and \
                        noref(b.val(ic.args[0])) == V('arg', 2):
                    ok = True
            ctx.check(ok, 'C20-R3', '%s-by-usize-from-key' % name, b,
                      good='%s looks up values[usize::from(key)]' % name,
                      bad='DenseNatMap::%s does not address values[usize::from(key)]' % name)
    with ctx.rule('C10-R5', 'rewrite'):
        c10.r5_densenatmap(ctx, F)
    # VectorClock hash/eq structure (shared with C04)
    with ctx.rule('C20-R4', 'VectorClock'):
        vclock_hash_rules(ctx, F)
        vclock_no_binary_search(ctx, F)
        vclock_operators_follow_partial_cmp(ctx, F)


def vclock_hash_rules(ctx, F):
    """VectorClock::hash: one length-prefixed slice of the components, cut from the back (shared with C04)"""
    ims = [x for x in c04.manual_impls(F, c04.HASH) if x[1]['path'] == 'util::vector_clock::VectorClock']
    if not ims:
        raise AnchorMissing('manual Hash impl of VectorClock')
    body = c04.impl_method(F, ims[0][0], 'hash')
    ctx.touched(body)
    feeds = [c for c in body.calls if c.is_('Hash::hash') and c.targs and c04.LEN_FEEDING_SELF.match(c.targs[0])]
    from common import on_all_paths
    ok = len(feeds) == 1 and on_all_paths(F, body, feeds[0].bb) and \
        noref(body.val(feeds[0].args[1])) == V('arg', 2)
    ctx.check(ok, 'C20-R4', 'hash-length-prefixed-slice', body,
              good='VectorClock::hash feeds one length-prefixed slice to the hasher on every path',
              bad='VectorClock::hash does not feed exactly one length-prefixed slice on every path')
    src = noref(body.trace(body.val(feeds[0].args[0]), ('Index::index', 'Deref::deref'))) if feeds else None
    if src is not None and src.kind == 'local' and feeds[0].args[0].get('k') in ('copy', 'move'):
        # the hashed slice may be narrowed in a loop (`while let [rest @ .., 0] = s { s = rest }`): every value it
        # can stand for is (a part of) the components
        from taint import origin_vals
        leaves = set()
        for v in origin_vals(body, feeds[0].args[0]):
            v = noref(body.trace(noref(v), ('Index::index', 'Deref::deref', 'Vec::as_slice', 'AsRef::as_ref')))
            if v.kind == 'local' and v.key == src.key:
                continue          # itself, narrowed
            leaves.add((v.kind, v.key, tuple(f for f in v.fields() if not f.startswith('['))))
        if leaves == {('arg', 1, ('.0',))}:
            src = V('arg', 1, ('.0',))
    ctx.check(src is not None and src.fields()[-1:] == ('.0',) and src.key == 1, 'C20-R4', 'hash-of-components', body,
              good='the hashed slice is a prefix of the clock\'s components',
              bad='VectorClock::hash does not hash the clock components')
    # only TRAILING zeros are padding (`<0, 1>` is not `<>`): the cut-off of the hashed prefix is found by a scan
    # from the back - a front scan that stops at the first zero (`take_while`, `position`, `find`, ...) merges
    # clocks that `==` tells apart
    FRONT = ('Iterator::take_while', 'Iterator::position', 'Iterator::find', 'Iterator::map_while',
             'Iterator::skip_while', 'Iterator::find_map', 'Iterator::take', 'Iterator::any', 'Iterator::all')
    raw = F.bodies[body.path] if body.path in F.bodies else body
    bad = []
    for c in raw.calls:
        if not c.is_(*FRONT) or not c.args:
            continue
        v = raw.val(c.args[0])
        reversed_ = False
        for _ in range(8):
            cc_ = raw.call_at(v.key) if v.kind == 'call' else None
            if cc_ is None or not cc_.args:
                break
            if cc_.is_('Iterator::rev', 'slice::rchunks', 'slice::rsplit'):
                reversed_ = True
                break
            v = raw.val(cc_.args[0])
        if not reversed_:
            bad.append('%s@%s' % (c.short.split('::')[-1], c.span))
    ctx.check(not bad, 'C20-R4', 'hash-cutoff-scans-from-the-back', body,
              good='no front-to-back scan that stops early decides how much of the clock is hashed',
              bad='VectorClock::hash cuts the hashed prefix with a scan from the front (%s): components behind the '
                  'first zero are left out, so clocks that differ only there - and are unequal - feed the same '
                  'bytes to the hasher and their states are merged' % sorted(bad))


def vclock_operators_follow_partial_cmp(ctx, F):
    """`<`, `<=`, `>`, `>=` on vector clocks are the provided methods of PartialOrd, i.e. they are defined by
    partial_cmp. An override in the impl is a second implementation of the order: it is accepted only when it
    asks partial_cmp (and then only looks at the Ordering) - one that walks the components itself can disagree
    with partial_cmp (e.g. a `zip` that stops at the shorter clock)."""
    ims = [im for im in F.impls_of('PartialOrd') if im['self_tree'].get('path') == 'util::vector_clock::VectorClock']
    if len(ims) != 1:
        raise AnchorMissing('impl PartialOrd for VectorClock (found %d)' % len(ims))
    names = sorted(it['name'] for it in ims[0]['provided'])
    if 'partial_cmp' not in names:
        raise AnchorMissing('VectorClock::partial_cmp')
    bad = []
    for it in ims[0]['provided']:
        if it['name'] == 'partial_cmp':
            continue
        body = F.bodies.get(it['path'])
        if body is None:
            bad.append(it['name'])
            continue
        ctx.touched(body)
        nb = F.norm(body)
        calls = [c for x in bodies_with_closures(F, nb) for c in x.calls if not c.exp]
        asks = [c for c in calls if c.is_('PartialOrd::partial_cmp') and c.targs and 'VectorClock' in c.targs[0]]
        other = [c for c in calls if c not in asks and not re.match(
            r'^(std|core)::(option::Option|cmp::Ordering|cmp::PartialEq|cmp::impls)', c.decl or c.callee)]
        if not asks or other:
            bad.append(it['name'])
    ctx.check(not bad, 'C20-R4', 'operators-follow-partial_cmp', ims[0]['path'],
              good='the comparison operators of VectorClock are those partial_cmp defines (overrides: %s)' %
                   ([n for n in names if n != 'partial_cmp'] or 'none'),
              bad='impl PartialOrd for VectorClock overrides %s with code that does not go through partial_cmp: the '
                  'operators and partial_cmp are two implementations of the order that can disagree (antisymmetry, '
                  'strict increase and the least upper bound are then broken for the operator)' % bad)


def vclock_no_binary_search(ctx, F):
    """Trailing zeros are found by looking at the components, not by bisecting them: a clock is not sorted or
    partitioned (`<1, 0, 1>`), so a binary search for the cut-off gives length-dependent answers and equal
    clocks stop hashing / comparing equally."""
    from common import bodies_with_closures
    n = 0
    for b in F.bodies.values():
        if b.kind == 'Closure' or 'vector_clock::VectorClock' not in b.path:
            continue
        if not re.search(r'::(hash|eq|partial_cmp|cmp|merge_max)$', b.path):
            continue
        n += 1
        ctx.touched(b)
        bad = [c for x in bodies_with_closures(F, b) for c in x.calls
               if c.is_('slice::partition_point', 'slice::binary_search', 'slice::binary_search_by',
                        'slice::binary_search_by_key')]
        ctx.check(not bad, 'C20-R4', 'no-bisection@%s' % b.path.split('::')[-1], b,
                  good='the components are scanned, not bisected',
                  bad='%s bisects the components (%s): a vector clock is neither sorted nor partitioned into '
                      'non-zero / zero, so the result depends on the physical length and equal clocks are told apart'
                      % (b.path, [c.short.split('::')[-1] for c in bad]))
    if n < 3:
        raise AnchorMissing('VectorClock hash/eq/partial_cmp (found %d)' % n)
