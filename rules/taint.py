"""Flow-insensitive "derives from" analysis over one body (analysis A13).

Labels are attached to locals. A local derives from everything its defining rvalues read; a call's
result derives from all its arguments, and so does everything the call may write through a
`&mut` argument. Closure captures are ordinary aggregate operands, so a closure value carries what
it captured. A `sanitiser(local, block)` hook lets a rule replace a label where a use sits behind
a test of that very value (for example: an initial state used behind `within_boundary(state) ==
true` is no longer a raw initial state).

The answer over-approximates: a label may be reported where no flow exists, never the reverse.
"""


def rv_operands(rv):
    k = rv['k']
    if k in ('use', 'cast', 'repeat'):
        return [rv['op']]
    if k in ('ref', 'rawptr', 'discr', 'len'):
        return [{'k': 'copy', 'place': rv['place']}]
    if k == 'bin':
        return [rv['a'], rv['b']]
    if k == 'un':
        return [rv['a']]
    if k == 'agg':
        return list(rv['ops'])
    return []


def op_locals(o):
    if o.get('k') in ('copy', 'move'):
        out = [o['place']['l']]
        for e in o['place']['p']:
            if isinstance(e, dict) and 'index' in e:
                out.append(e['index'])
        return out
    return []


class Taint:
    def __init__(self, b, seeds, sanitiser=None, opaque_calls=()):
        """seeds: {local: set(labels)} or list of (call, labels) handled by the caller.
        sanitiser(local, block, labels) -> labels seen by a use of `local` in `block`."""
        self.b = b
        self.t = dict((l, set(v)) for l, v in seeds.items())
        self.san = sanitiser
        self.opaque = opaque_calls
        # aliases: r = &mut q / &q  (r and q denote the same storage)
        self.alias = {}
        b.succ
        live = b._rawlive        # including assignment-only blocks that jump threading steps over
        self.stmts = []
        for i, bl in enumerate(b.blocks):
            if bl['cleanup'] or i not in live:
                continue
            for st in bl['stmts']:
                if st['k'] == 'assign':
                    self.stmts.append((i, 'assign', st))
                    rv = st['rv']
                    if rv['k'] == 'ref' and not st['lhs']['p']:
                        self.alias.setdefault(st['lhs']['l'], set()).add((rv['place']['l'], rv.get('mut', False)))
            if bl['term']['k'] == 'call':
                self.stmts.append((i, 'call', bl['term']))
        self._run()

    def seen(self, l, bb):
        labels = self.t.get(l, set())
        if self.san is not None and labels:
            return self.san(l, bb, labels)
        return labels

    def _add(self, l, labels):
        cur = self.t.setdefault(l, set())
        if labels - cur:
            cur |= labels
            # storage written through a mutable reference
            for (q, mut) in self.alias.get(l, ()):
                if mut:
                    self._add(q, labels)
            return True
        return False

    def _run(self):
        b = self.b
        changed = True
        rounds = 0
        while changed and rounds < 100:
            changed = False
            rounds += 1
            for (bb, kind, st) in self.stmts:
                if kind == 'assign':
                    src = set()
                    for o in rv_operands(st['rv']):
                        for l in op_locals(o):
                            src |= self.seen(l, bb)
                    if src and self._add(st['lhs']['l'], src):
                        changed = True
                else:
                    src = set()
                    ops = list(st['args'])
                    if st.get('fnptr'):
                        ops.append(st['fnptr'])
                    for o in ops:
                        for l in op_locals(o):
                            src |= self.seen(l, bb)
                    if not src:
                        continue
                    if self._add(st['dest']['l'], src):
                        changed = True
                    for o in st['args']:
                        if o.get('k') in ('copy', 'move') and not o['place']['p']:
                            l = o['place']['l']
                            if b.locals[l]['ty'].startswith('&mut'):
                                if self._add(l, src):
                                    changed = True

    def of_operand(self, o, bb):
        out = set()
        for l in op_locals(o):
            out |= self.seen(l, bb)
        return out


_LIVE = [None]


def origins_under(b, operand, live):
    """origins() with definitions restricted to the blocks in `live` (e.g. the blocks reachable when a
    `match` on an unchanging value takes one particular arm everywhere: mir.reach_under)"""
    _LIVE[0] = live
    try:
        return origins(b, operand)
    finally:
        _LIVE[0] = None


def origins(b, operand, depth=0, seen=None):
    """The defining events a value can come from, following copies, references, locals with several
    definitions and enum / tuple aggregates that are taken apart again (`Some(x)` ... `(v as
    Some).0`): a set of Call objects, ('proj', Call, projection) for a part of a call result, or
    'other'."""
    if seen is None:
        seen = set()
    if operand.get('k') not in ('copy', 'move'):
        return {'other'}
    return _origins(b, operand['place']['l'], [e for e in operand['place']['p'] if e != 'deref'], depth, seen)


def _origins(b, l, projs, depth, seen):
    out = set()
    key = (l, len(projs))
    if key in seen or depth > 14:
        return out
    seen.add(key)
    if 1 <= l <= b.arg_count and not [d for d in b.defs.get(l, []) if d[1] == 'call' or not d[2]['lhs']['p']]:
        return {('arg', l)}
    ds = [d for d in b.defs.get(l, []) if d[1] == 'call' or not d[2]['lhs']['p']]
    if _LIVE[0] is not None and len(ds) > 1:
        ds = [d for d in ds if d[0] in _LIVE[0]] or ds
    if not ds:
        return {'other'}
    for d in ds:
        if d[1] == 'call':
            c = b.call_at(d[0])
            els = _iterated_elements(b, c, projs)
            if els is not None:
                # `for x in &coll` where coll was collected from a spliced adaptor chain: x is one of the
                # yielded elements
                for o in els:
                    out |= _origins(b, o['place']['l'], [e for e in o['place']['p'] if e != 'deref'] + projs[2:],
                                    depth + 1, seen)
                continue
            out.add(c if not projs else ('proj', c, tuple(str(e.get('downcast', e.get('f'))) if isinstance(e, dict)
                                                           else str(e) for e in projs)))
            continue
        rv = d[2]['rv']
        if rv['k'] in ('use', 'cast') and rv['op'].get('k') in ('copy', 'move'):
            pl = rv['op']['place']
            out |= _origins(b, pl['l'], [e for e in pl['p'] if e != 'deref'] + projs, depth + 1, seen)
        elif rv['k'] == 'ref':
            pl = rv['place']
            out |= _origins(b, pl['l'], [e for e in pl['p'] if e != 'deref'] + projs, depth + 1, seen)
        elif rv['k'] == 'agg' and rv.get('agg') == 'adt' and projs and isinstance(projs[0], dict) \
                and 'downcast' in projs[0]:
            if projs[0]['downcast'] != rv.get('variant'):
                continue      # the other variant: this definition cannot be the one taken apart
            if len(projs) >= 2 and isinstance(projs[1], dict) and 'f' in projs[1] and projs[1]['f'] < len(rv['ops']):
                o = rv['ops'][projs[1]['f']]
                if o.get('k') in ('copy', 'move'):
                    out |= _origins(b, o['place']['l'], [e for e in o['place']['p'] if e != 'deref'] + projs[2:],
                                    depth + 1, seen)
                else:
                    out.add('other')
            else:
                out.add('other')
        elif rv['k'] == 'agg' and rv.get('agg') in ('tuple', 'adt') and projs and isinstance(projs[0], dict) \
                and 'f' in projs[0] and projs[0]['f'] < len(rv['ops']):
            o = rv['ops'][projs[0]['f']]
            if o.get('k') in ('copy', 'move'):
                out |= _origins(b, o['place']['l'], [e for e in o['place']['p'] if e != 'deref'] + projs[1:],
                                depth + 1, seen)
            else:
                out.add('other')
        else:
            out.add('other')
    return out


def _single_source(b, l, pats):
    """the local that local `l` (an iterator / a reference) was made from: follows copies, refs and the
    calls in `pats`; None if ambiguous"""
    for _ in range(8):
        ds = [d for d in b.defs.get(l, []) if d[1] == 'call' or not d[2]['lhs']['p']]
        if len(ds) != 1:
            return l
        d = ds[0]
        if d[1] == 'call':
            c = b.call_at(d[0])
            if c.is_(*pats) and c.args and c.args[0].get('k') in ('copy', 'move') and \
                    not [e for e in c.args[0]['place']['p'] if e != 'deref']:
                l = c.args[0]['place']['l']
                continue
            return l
        rv = d[2]['rv']
        if rv['k'] in ('use', 'cast') and rv['op'].get('k') in ('copy', 'move') and \
                not [e for e in rv['op']['place']['p'] if e != 'deref']:
            l = rv['op']['place']['l']
        elif rv['k'] == 'ref' and not [e for e in rv['place']['p'] if e != 'deref']:
            l = rv['place']['l']
        else:
            return l
    return l


def _iterated_elements(b, c, projs):
    """c = Iterator::next and projs selects the `Some` payload: if the iterator walks a local collection
    that was built by a `collect()` of a normalised chain (A12: `desugar::yield(&mut out, elem)`), the
    element operands; otherwise None."""
    if not c.is_('Iterator::next') or len(projs) < 2 or not (isinstance(projs[0], dict) and projs[0].get('downcast') == 'Some'):
        return None
    if not c.args or c.args[0].get('k') not in ('copy', 'move'):
        return None
    coll = _single_source(b, c.args[0]['place']['l'],
                          ('IntoIterator::into_iter', 'slice::iter', 'Vec::iter', 'VecDeque::iter', 'Deref::deref'))
    cy = collection_yields(b, coll)
    if cy is None:
        return None
    els = [y.args[1] for y in cy[1] if y.args[1].get('k') in ('copy', 'move')]
    return els or None


EMPTY_CTORS = ('Vec::new', 'Vec::with_capacity', 'VecDeque::new', 'VecDeque::with_capacity', 'Default::default')


def collection_yields(b, coll):
    """local `coll` holds a collection built by one `collect()` of a normalised chain (A12) - other definitions
    may only be empty constructors (`return Vec::new()` on an early exit): (collect call, [yield calls]), else
    None"""
    ds = [d for d in b.defs.get(coll, []) if d[1] == 'call' or not d[2]['lhs']['p']]
    cols = []
    for d in ds:
        if d[1] != 'call':
            # handed through a temporary / the return place of a spliced helper
            rv = d[2]['rv']
            if rv['k'] == 'use' and rv['op'].get('k') in ('copy', 'move') and not rv['op']['place']['p']:
                sub = collection_yields(b, rv['op']['place']['l'])
                if sub is None:
                    return None
                cols.append(sub)
                continue
            return None
        dc = b.call_at(d[0])
        if dc.is_(*EMPTY_CTORS):
            continue
        if not dc.is_('Iterator::collect', 'FromIterator::from_iter') or not dc.args or \
                dc.args[0].get('k') not in ('copy', 'move'):
            return None
        src = dc.args[0]['place']['l']
        ys = []
        for y in b.calls_to('desugar::yield'):
            r = y.args[0]
            if r.get('k') not in ('copy', 'move'):
                continue
            rs = [d_ for d_ in b.defs.get(r['place']['l'], []) if d_[1] != 'call' and d_[2]['rv']['k'] == 'ref']
            if any(d_[2]['rv']['place']['l'] == src for d_ in rs):
                ys.append(y)
        cols.append((dc, ys))
    cols = [c_ for c_ in cols if c_ is not None]
    if len(cols) != 1 or not cols[0][1]:
        return None
    return cols[0]


def origin_calls(b, operand):
    """origins() restricted to whole call results; anything else is 'other'"""
    return set(o if not isinstance(o, tuple) and o != 'other' else 'other' for o in origins(b, operand))


def origin_vals(b, operand, extra=()):
    """Like origins(), but returns the def-use values (mir.V) at the leaves, so that two places that
    receive the same computed value through different joins / aggregates compare equal. `extra` is a
    projection to apply to the operand first; {'downcast': '*'} matches whichever variant was built."""
    from mir import V, proj_str
    if operand.get('k') not in ('copy', 'move'):
        return {b.val(operand)} if not extra else set()
    out = set()
    seen = set()

    def strip(v):
        return V(v.kind, v.key, [p for p in v.projs if p not in ('ref', 'deref')])

    def go(l, projs, depth):
        key = (l, tuple(proj_str(e) if not (isinstance(e, dict) and e.get('downcast') == '*') else '*' for e in projs))
        if key in seen or depth > 16:
            return
        seen.add(key)
        ds = [d for d in b.defs.get(l, []) if d[1] == 'call' or not d[2]['lhs']['p']]
        if _LIVE[0] is not None and len(ds) > 1:
            ds = [d for d in ds if d[0] in _LIVE[0]] or ds
        if not ds or (1 <= l <= b.arg_count and len(ds) == 0):
            v = b.local_val(l)
            for e in projs:
                v = v.with_proj(proj_str(e))
            out.add(strip(v))
            return
        for d in ds:
            if d[1] == 'call':
                v = V('call', d[0])
                for e in projs:
                    v = v.with_proj(proj_str(e))
                out.add(strip(v))
                continue
            rv = d[2]['rv']
            if rv['k'] in ('use', 'cast') and rv['op'].get('k') in ('copy', 'move'):
                pl = rv['op']['place']
                go(pl['l'], [e for e in pl['p'] if e != 'deref'] + projs, depth + 1)
            elif rv['k'] == 'ref':
                pl = rv['place']
                go(pl['l'], [e for e in pl['p'] if e != 'deref'] + projs, depth + 1)
            elif rv['k'] == 'agg' and projs and isinstance(projs[0], dict) and 'downcast' in projs[0]:
                if rv.get('agg') != 'adt' or (projs[0]['downcast'] != '*' and projs[0]['downcast'] != rv.get('variant')):
                    continue
                if len(projs) >= 2 and isinstance(projs[1], dict) and 'f' in projs[1] and projs[1]['f'] < len(rv['ops']):
                    o = rv['ops'][projs[1]['f']]
                    if o.get('k') in ('copy', 'move'):
                        go(o['place']['l'], [e for e in o['place']['p'] if e != 'deref'] + projs[2:], depth + 1)
                    else:
                        out.add(b.val(o))
            elif rv['k'] == 'agg' and projs and isinstance(projs[0], dict) and 'f' in projs[0] and \
                    projs[0]['f'] < len(rv['ops']):
                o = rv['ops'][projs[0]['f']]
                if o.get('k') in ('copy', 'move'):
                    go(o['place']['l'], [e for e in o['place']['p'] if e != 'deref'] + projs[1:], depth + 1)
                else:
                    out.add(b.val(o))
            else:
                if len(ds) == 1:
                    v = b.local_val(l)
                else:
                    v = V('local', l)
                for e in projs:
                    v = v.with_proj(proj_str(e))
                out.add(strip(v))
    pl = operand['place']
    go(pl['l'], [e for e in pl['p'] if e != 'deref'] + list(extra), 0)
    return out


def vals_of(b, v):
    """origin_vals() for a def-use value (mir.V) that stopped at a local with several definitions (a join of
    `Continue(x)` / `Break(r)` after `expr?`, of `Some(x)` / `None`, ...): the values it can stand for."""
    import re as _re
    if v.kind != 'local':
        return {v}
    ps = []
    rest = []
    for q in v.projs:
        if q in ('ref', 'deref'):
            continue
        if rest:
            rest.append(q)
        elif q.startswith('as '):
            ps.append({'downcast': q[3:]})
        elif _re.match(r'^\.\d+$', q):
            ps.append({'f': int(q[1:])})
        else:
            rest.append(q)       # a named field: resolved on what the prefix stands for
    out = set()
    base = origin_vals(b, {'k': 'copy', 'place': {'l': v.key, 'p': []}}, extra=ps)
    if not base:
        return {v}
    for x in base:
        for q in rest:
            x = x.with_proj(q)
        out.add(x)
    return out


def origin_vals_under(b, operand, live, extra=()):
    """origin_vals() with definitions restricted to the blocks in `live`"""
    _LIVE[0] = live
    try:
        return origin_vals(b, operand, extra)
    finally:
        _LIVE[0] = None
