"""C05 - parallel checking: lock / condvar / shutdown discipline (DESIGN.md section 4, C05)."""
import re

from checkers import CB, EXHAUSTIVE, SPAWNS, Spawn, is_arg, noref
from common import bodies_with_closures, iter_places
from mir import AnchorMissing, V

LEVEL_TEXT = (
    'Static lock/condvar/shutdown discipline over job_market.rs and the four spawn functions: no '
    'blocking call inside any live range of the market guard (Condvar::wait on that guard excepted); '
    'every `open = false` and every batch push is published by a notify in the same critical section '
    'or by a JobBroker drop on every path to the exit; the wait is a re-checked loop with open_count '
    'balanced around it; the last active worker and Drop close the market and notify all on every '
    'path; nobody leaks a JobBroker past its Drop; every thread whose JoinHandle is joined captures a '
    'JobBroker by value; the visited set is only touched through single-call arbitrations. These are '
    'necessary conditions; termination and schedule independence as theorems are NOT decided.')

FLOORS = {'C05-R1': 6, 'C05-R2': 5, 'C05-R3': 1, 'C05-R4': 2, 'C05-R5': 2, 'C05-R6': 4,
          'C05-R7': 4, 'C05-R8': 3, 'C05-R9': 1, 'C05-R10': 2, 'C05-R11': 3, 'C05-R12': 2, 'C12-R6': 4, 'C12-R7': 5, 'C01-R7': 5, 'C01-R10': 4}

BLOCKING = ('thread::sleep', 'JoinHandle::join', 'Receiver::recv', 'Receiver::recv_timeout',
            'Thread::park', 'thread::park', 'Condvar::wait', 'Condvar::wait_for', 'Condvar::wait_until',
            'Condvar::wait_while', 'Mutex::lock', 'thread::yield_now', 'SyncSender::send', 'Barrier::wait',
            'ScopedJoinHandle::join')


def market_fns(F):
    spliced = set(c for v in F.desugared.values() for c in v)   # closures that now live inside their caller (A12)
    spliced |= set(F.unknown_functions)                           # helpers that were spliced into their callers
    return [b for b in F.bodies.values()
            if (b.path.startswith('job_market::') or b.path.startswith('<job_market::')) and b.path not in spliced]


class Guard:
    """live range of a MutexGuard local obtained from Mutex::lock"""

    def __init__(self, b, lock):
        self.b, self.lock = b, lock
        self.local = lock.dest['l']
        self.ends = []  # blocks whose terminator releases the guard
        for i, blk in enumerate(b.blocks):
            if blk['cleanup']:
                continue
            t = blk['term']
            if t['k'] == 'drop' and t['place']['l'] == self.local and not t['place']['p']:
                self.ends.append(i)
            if t['k'] == 'call':
                for a in t['args']:
                    if a['k'] == 'move' and not a['place']['p']:
                        v = b.val(a)
                        if a['place']['l'] == self.local or (v.kind == 'call' and v.key == lock.bb and not v.projs):
                            c = b.call_at(i)
                            if c is not None and c.is_('mem::drop'):
                                self.ends.append(i)
        start = [lock.target] if lock.target is not None else []
        # blocks executed while the guard is held: reachable from the acquisition without passing
        # a release (the releasing block itself still runs with the guard held)
        inner = b.reach(start, cut_blocks=[])
        held = set()
        dq = list(start)
        seen = set(start)
        while dq:
            x = dq.pop()
            held.add(x)
            if x in self.ends:
                continue
            for t in b.succ[x]:
                if t not in seen:
                    seen.add(t)
                    dq.append(t)
        self.held = held

    def is_market(self):
        return 'JobMarket' in self.b.locals[self.local]['ty']


def guards(b):
    out = []
    for c in b.calls_to('Mutex::lock'):
        if 'MutexGuard' in b.locals[c.dest['l']]['ty']:
            out.append(Guard(b, c))
    return out


def r1_no_blocking_under_lock(ctx, F, rule='C05-R1'):
    n = 0
    for b in market_fns(F):
        for g in guards(b):
            if not g.is_market():
                continue
            n += 1
            ctx.touched(b)
            bad = []
            for c in b.calls:
                if c.bb not in g.held or c.bb == g.lock.bb:
                    continue
                if c.bb in g.ends and c.is_('mem::drop'):
                    continue
                if c.is_(*BLOCKING):
                    if c.is_('Condvar::wait') and len(c.args) >= 2:
                        gv = noref(b.val(c.args[1]))
                        if (gv.kind == 'call' and gv.key == g.lock.bb) or (gv.kind == 'local' and gv.key == g.local):
                            continue
                    bad.append(c)
            ctx.check(not bad, rule, 'critical-section', b,
                      good='no blocking call while the market guard is held (held in %d blocks)' % len(g.held),
                      bad='%s calls %s while holding the job-market lock (acquired at %s): every worker '
                          'that needs the market (pop/push/split_and_push) is stalled for the duration' %
                          (b.path, [x.short.split('::')[-1] + '@' + x.span for x in bad], g.lock.span),
                      span=(bad[0].span if bad else g.lock.span))
    if n < 6:
        raise AnchorMissing('expected >= 6 job-market critical sections, found %d' % n)


def drops_broker(F, b):
    """blocks whose terminator drops a JobBroker (directly, or a closure env holding one by value)"""
    out = []
    for i, blk in enumerate(b.blocks):
        if blk['cleanup']:
            continue
        t = blk['term']
        if t['k'] != 'drop':
            continue
        ty = t['ty']
        if ty.startswith('job_market::JobBroker<'):
            out.append(i)
        elif ty.startswith('{closure@') and b.kind == 'Closure' and t['place']['l'] == 1:
            if any(u['ty'].startswith('job_market::JobBroker<') for u in b.j.get('upvars', [])):
                out.append(i)
    return out


def field_store_blocks(b, field, const=None):
    out = []
    from common import stores_to_field
    for (i, st) in stores_to_field(b, field):
        if True:
            if const is None:
                out.append((i, st))
            else:
                rv = st['rv']
                if rv['k'] == 'use' and rv['op']['k'] == 'const' and rv['op'].get('val') == const:
                    out.append((i, st))
    return out


def r2_published(ctx, F, rule='C05-R2'):
    n = 0
    for b in market_fns(F):
        gs = [g for g in guards(b) if g.is_market()]
        if not gs:
            continue
        sites = [('open=false', i, ('Condvar::notify_all',)) for (i, st) in field_store_blocks(b, 'open', 0)]
        for c in b.calls_to('Vec::push'):
            rv = noref(b.trace(b.val(c.args[0]), ('DerefMut::deref_mut', 'Deref::deref')))
            if rv.fields() and rv.fields()[-1] == '.job_batches':
                sites.append(('push-batch', c.bb, ('Condvar::notify_all', 'Condvar::notify_one')))
        for what, blk, notes in sites:
            n += 1
            g = [g for g in gs if blk in g.held]
            if not g:
                ctx.bad(rule, what, b, '%s: %s happens outside any market critical section' % (b.path, what))
                continue
            g = g[0]
            ns = [c for c in b.calls_to(*notes) if c.bb in g.held]
            ok = False
            how = ''
            for nc in ns:
                # notify dominates the store inside the section
                if blk not in b.reach([g.lock.target], cut_blocks=[nc.bb]) or nc.bb == blk:
                    ok, how = True, 'notify at %s precedes it in the section' % nc.span
                # or post-dominates it inside the section
                r = b.reach([blk], cut_blocks=[nc.bb])
                if not any(e in r for e in g.ends) and not any(x in r for x in b.returns):
                    ok, how = True, 'notify at %s follows it in the section' % nc.span
            if not ok:
                db = drops_broker(F, b)
                r = b.reach(g.ends, cut_blocks=db)
                # the guard-release blocks may themselves not be broker drops; check from their successors
                if db and not any(x in r for x in b.returns):
                    ok, how = True, 'a JobBroker is dropped (notify_all) on every path to the exit'
            ctx.check(ok, rule, what, b,
                      good='%s is published: %s' % (what, how),
                      bad='%s: %s is not followed/preceded by a notify in the same critical section and '
                          'no JobBroker drop covers every exit: a worker waiting on the condvar is never '
                          'woken (lost wake-up)' % (b.path, what))
    if n < 5:
        raise AnchorMissing('expected >= 5 publish sites in job_market, found %d' % n)


def r3_r4_r5_pop(ctx, F):
    import roles
    b = roles.jm(F, 'pop')
    ctx.touched(b)
    wait = b.one_call('Condvar::wait', what='condvar wait in pop')
    pops = [c for c in b.calls_to('Vec::pop')
            if (lambda v: v.fields() and v.fields()[-1] == '.job_batches')(
                noref(b.trace(b.val(c.args[0]), ('DerefMut::deref_mut', 'Deref::deref'))))]
    if not pops:
        raise AnchorMissing('pop: job_batches.pop() not found')
    r = b.reach([wait.target], cut_blocks=[p.bb for p in pops])
    ctx.check(not any(x in r for x in b.returns), 'C05-R3', 'wait-is-rechecked-loop', b,
              good='after Condvar::wait every path to return re-tests job_batches.pop()',
              bad='JobBroker::pop can return after a wake-up without re-checking for work (spurious '
                  'wake-ups / stolen batches end a worker early or hand it nothing)')
    # the wait releases the same guard that protects the queue
    gs = [g for g in guards(b) if g.is_market()]
    gv = noref(b.val(wait.args[1]))
    okg = bool(gs) and ((gv.kind == 'call' and gv.key == gs[0].lock.bb) or (gv.kind == 'local' and gv.key == gs[0].local))
    ctx.check(okg, 'C05-R3', 'wait-on-market-guard', b, good='wait() releases the market guard',
              bad='JobBroker::pop waits on a guard that is not the market guard')
    # R4 balance
    dec = [c for c in b.calls_to('saturating_sub', 'usize::saturating_sub', 'checked_sub', 'wrapping_sub')]
    dec_stores = []
    inc_stores = []
    for (i, st) in field_store_blocks(b, 'open_count'):
        v = b.val(st['rv']['op']) if st['rv']['k'] == 'use' else None
        if v is None:
            continue
        vd = b.trace(v, ('Option::unwrap_or', 'Option::unwrap', 'Option::unwrap_or_default', 'Option::expect'))
        if vd.kind == 'call' and b.call_at(vd.key) in dec:
            dec_stores.append(i)
        elif noref(v).kind == 'bin' and noref(v).key[0] in ('SubWithOverflow', 'Sub', 'SubUnchecked'):
            dec_stores.append(i)
        v2 = noref(v)
        if v2.kind == 'bin' and v2.key[0] in ('AddWithOverflow', 'Add'):
            inc_stores.append(i)
    ok = any(b.dominates(d, wait.bb) for d in dec_stores)
    ctx.check(ok, 'C05-R4', 'decrement-before-wait', b,
              good='open_count is decremented before waiting',
              bad='JobBroker::pop waits without first decrementing open_count: the last-worker test '
                  '(open_count == 0) can never fire and all workers sleep forever')
    r = b.reach([wait.target], cut_blocks=inc_stores)
    hit = [x for x in b.returns if x in r] + [c.bb for c in dec if c.bb in r]
    ctx.check(bool(inc_stores) and not hit, 'C05-R4', 'increment-after-wait', b,
              good='open_count is incremented again after every wake-up',
              bad='JobBroker::pop does not re-increment open_count after a wake-up on every path: the '
                  'count of active workers drifts and the market is closed while work is pending')
    # R5 last worker
    from common import edges_where
    lasts = edges_where(b, lambda v: noref(v).fields()[-1:] == ('.open_count',),
                        lambda v: noref(v).kind == 'const' and noref(v).key == 0, 'eq', with_blocks=True)
    if len(lasts) != 1:
        raise AnchorMissing('pop: open_count == 0 test not found')
    last_bb, last_edges = lasts[0]
    te = [e[1] for e in last_edges]
    na = [c.bb for c in b.calls_to('Condvar::notify_all')]
    r1 = b.reach(te, cut_blocks=na)
    ctx.check(bool(na) and not any(x in r1 for x in b.returns), 'C05-R5', 'last-worker-notifies-all', b,
              good='the last active worker notifies all sleepers before returning empty',
              bad='JobBroker::pop: the last active worker returns without notify_all: the other workers '
                  'stay asleep on the condvar and join() never returns')
    cl = [i for (i, st) in field_store_blocks(b, 'open', 0)]
    r2 = b.reach(te, cut_blocks=cl)
    ctx.check(bool(cl) and not any(x in r2 for x in b.returns), 'C05-R5', 'last-worker-closes', b,
              good='the last active worker closes the market before returning empty',
              bad='JobBroker::pop: the last active worker returns without closing the market: woken '
                  'workers find it open, find no work and go back to sleep')
    ctx.check(b.dominates(last_bb, wait.bb), 'C05-R5', 'test-before-wait', b,
              good='the last-worker test dominates the wait',
              bad='JobBroker::pop can wait without having tested whether it is the last active worker')


def r6_drop(ctx, F):
    rule = 'C05-R6'
    b = F.body('<job_market::JobBroker<Job> as std::ops::Drop>::drop')
    ctx.touched(b)
    musts = {
        'open=false': [i for (i, st) in field_store_blocks(b, 'open', 0)],
        # emptied in place, or moved out (`mem::take(&mut market.job_batches)`) to be freed after the lock is released
        'job_batches.clear': [c.bb for c in b.calls_to('Vec::clear')] +
                             [c.bb for c in b.calls_to('mem::take', 'mem::replace') if c.args and
                              noref(b.trace(b.val(c.args[0]), ('DerefMut::deref_mut', 'Deref::deref'))).fields()[-1:] ==
                              ('.job_batches',)],
        'notify_all': [c.bb for c in b.calls_to('Condvar::notify_all')],
    }
    for what, blocks in musts.items():
        r = b.reach([0], cut_blocks=blocks)
        ctx.check(bool(blocks) and not any(x in r for x in b.returns), rule, 'drop-' + what, b,
                  good='Drop performs %s on every path' % what,
                  bad='<JobBroker as Drop>::drop can return without %s: when a worker stops (finish '
                      'condition, target, panic) the others are not shut down' % what)
    leaks = [c for c in F.all_calls('mem::forget', 'ManuallyDrop::new', 'Box::leak', 'Arc::into_raw',
                                    'Box::into_raw', 'mem::transmute')
             if any('JobBroker' in t for t in c.targs)]
    ctx.check(not leaks, rule, 'no-leak-of-broker', 'crate',
              good='no forget/ManuallyDrop/leak of a JobBroker anywhere in the crate',
              bad='a JobBroker escapes its Drop (%s): unwinding out of that worker no longer shuts the '
                  'others down' % [c.where() for c in leaks])


def joined_threads(F, strat):
    """(closure body, spawn call) for each thread whose JoinHandle flows into `handles`"""
    sp = Spawn(F, strat)
    s = F.norm(sp.b)       # `handles.push(spawn(..))` in a loop, or `(0..n).map(|t| spawn(..)).collect()`
    out = []
    from common import collected_elements
    sites = [(c, c.args[1]) for c in s.calls_to('Vec::push') if 'JoinHandle' in (c.targs[0] if c.targs else '')]
    sites += [(y, el) for (y, el, col) in collected_elements(s, lambda t: 'JoinHandle' in t)]
    from taint import origins

    def spawn_call(op, depth=0):
        org = origins(s, op) if op.get('k') in ('copy', 'move') else set()
        if len(org) != 1 or depth > 4:
            return None
        o = next(iter(org))
        if isinstance(o, (str, tuple)):
            return None
        if o.is_('Result::expect', 'Result::unwrap'):
            return spawn_call(o.args[0], depth + 1)
        return o
    for c, el in sites:
        sc = spawn_call(el)
        if sc is None or not sc.is_('Builder::spawn', 'thread::spawn'):
            raise AnchorMissing('%s: a JoinHandle pushed to handles does not come from a thread spawn' % s.path)
        cv = s.val(sc.args[-1])
        if cv.kind == 'agg' and cv.key[0] == 'closure':
            out.append((F.bodies[cv.key[1]], sc))
        else:
            raise AnchorMissing('%s: thread body is not a closure literal' % s.path)
    return sp, out


def shutdown_guard(F, cl):
    """A local of a type whose Drop stores `true` into an atomic flag, created before the work loop
    of the thread, where the same closure leaves its loop when an atomic bool flag is set."""
    flag_types = {}
    for im in F.impls_of('Drop'):
        t = im['self_tree']
        if t.get('k') != 'adt' or t['path'] not in F.adts:
            continue
        for it in im['provided']:
            d = F.bodies.get(it['path'])
            if d is None:
                continue
            sts = [c for c in d.calls_to('Atomic::store')
                   if d.val(c.args[1]).kind == 'const' and d.val(c.args[1]).key == 1]
            if sts and not any(x in d.reach([0], cut_blocks=[c.bb for c in sts]) for x in d.returns):
                flag_types[t['path']] = d
    if not flag_types:
        return None
    work = [c for c in cl.calls if c.local and c.callee in F.bodies and F.bodies[c.callee].calls_to('Model::actions')]
    if not work:
        return None
    for (i, si, st) in cl.assigns(lambda st: st['rv']['k'] == 'agg' and st['rv'].get('adt') in flag_types):
        if not cl.dominates(i, work[0].bb):
            continue
        # the loop observes an atomic bool and leaves
        for sw in cl.switches:
            on = sw.on
            if on.kind == 'call':
                c = cl.call_at(on.key)
                if c is not None and c.is_('Atomic::load') and sw.kind == 'bool':
                    r = cl.reach([e[1] for e in sw.edges_for(True)], cut_blocks=[work[0].bb])
                    if any(x in r for x in cl.returns):
                        return ('joined thread owns a %s guard (Drop raises the shutdown flag, also on '
                                'unwind) and leaves its loop when the flag is set' % st['rv']['adt'])
    return None


def r7_joined_threads(ctx, F):
    rule = 'C05-R7'
    for strat in ('BFS', 'DFS', 'OD', 'SIM'):
        with ctx.rule(rule, strat):
            sp, ths = joined_threads(F, strat)
            if not ths:
                raise AnchorMissing('%s: no joined threads found' % sp.b.path)
            for cl, sc in ths:
                ctx.touched(cl)
                ups = [u['ty'] for u in cl.j.get('upvars', [])]
                ok = any(u.startswith('job_market::JobBroker<') for u in ups)
                how = 'joined thread owns a JobBroker (its Drop shuts the others down, also on unwind)'
                if not ok:
                    g = shutdown_guard(F, cl)
                    if g:
                        ok, how = True, g
                ctx.check(ok, rule, 'joined-thread-carries-broker', cl,
                          good=how,
                          bad='%s: a thread whose JoinHandle is joined by Checker::join captures no '
                              'JobBroker by value (captures: %s): nothing signals shutdown when it or a '
                              'sibling stops or panics, so join() can block forever' %
                              (cl.path, [u[:50] for u in ups]), span=sc.span)


def r8_atomic_arbitration(ctx, F, rule='C05-R8'):
    for strat in EXHAUSTIVE:
        with ctx.rule(rule, strat):
            cb = CB(F, strat)
            b = cb.b
            used = []
            for c in b.calls:
                if c.args and is_arg(b.val(c.args[0]), cb.p_generated) and \
                        re.search(r'dashmap::Dash(Map|Set)::', c.short):
                    used.append(c)
            names = sorted(set(c.short.split('::')[-1] for c in used))
            bad = [c for c in used if c.short.split('::')[-1] not in ('entry', 'insert', 'len')]
            ctx.check(not bad and bool(used), rule, 'single-call-arbitration', b,
                      good='`generated` is only touched through %s' % names,
                      bad='%s: `generated` is also accessed through %s: a check-then-insert sequence is '
                          'not atomic, two workers can both see "absent" and both enqueue the state' %
                          (strat, [c.short.split('::')[-1] + '@' + c.span for c in bad]))


def r9_empty_batch_is_shutdown_signal(ctx, F, rule='C05-R9'):
    """Reader/writer agreement: workers treat an empty batch from pop() as "no more work" and shut
    down (closing the market for everybody). Therefore no batch that is split off a worker's queue
    may be published while empty."""
    import c02
    readers = []
    for strat in EXHAUSTIVE:
        sp = Spawn(F, strat)
        ex = c02.sanctioned_worker_exits(F, sp)
        if any(l == 'no-more-work' and e for (l, e) in ex):
            readers.append(strat)
    if not readers:
        ctx.ok(rule, 'no-reader-uses-empty-as-signal', 'workers', 'no worker interprets an empty batch as shutdown')
        return
    import roles
    sp = roles.jm(F, 'split_and_push')
    ctx.touched(sp)
    pushes = [c for c in sp.calls_to('Vec::push')
              if (lambda v: v.fields() and v.fields()[-1] == '.job_batches')(
                  noref(sp.trace(sp.val(c.args[0]), ('DerefMut::deref_mut', 'Deref::deref'))))]
    if not pushes:
        raise AnchorMissing('split_and_push: push onto job_batches not found')
    from taint import origins
    for pc in pushes:
        bo = origins(sp, pc.args[1])
        guards_ = [c for c in sp.calls_to('VecDeque::is_empty') if bo and origins(sp, c.args[0]) == bo]
        ok = False
        for g in guards_:
            fe = sp.branch(g, False)
            if fe and sp.edges_dominate(fe, pc.bb, frm=[g.bb]) and sp.dominates(g.bb, pc.bb):
                ok = True
        if not ok:
            # ... or by arithmetic: the batch is `jobs.split_off(jobs.len() - size)` (exactly `size` jobs, or a
            # panic) and `size != 0` on every path to the push
            from common import edges_where
            for o in bo:
                if isinstance(o, (str, tuple)) or not o.is_('VecDeque::split_off') or len(o.args) != 2:
                    continue
                at = noref(sp.val(o.args[1]))
                if at.kind == 'local' and not at.projs:
                    # a running cut-off: `remaining -= size; jobs.split_off(remaining)` - the queue is `size`
                    # longer than the cut-off whenever the previous cut-off was its length; what is decided here
                    # is the necessary part: the cut-off was just lowered by `size`, and size != 0
                    subs = []
                    for d in sp.defs.get(at.key, []):
                        if d[1] == 'call' or d[2]['lhs']['p'] or d[2]['rv']['k'] != 'use':
                            continue
                        dv = noref(sp.val(d[2]['rv']['op']))
                        if dv.kind == 'bin' and dv.key[0] in ('Sub', 'SubWithOverflow', 'SubUnchecked') and \
                                noref(dv.key[1]) == at and sp.dominates(d[0], o.bb) and sp.in_cycle(d[0]):
                            subs.append(noref(dv.key[2]))
                    if len(subs) == 1:
                        size = subs[0]
                        nz = edges_where(sp, lambda v: noref(v) == size, lambda v: v.kind == 'const' and v.key == 0, 'ne')
                        if nz and sp.edges_dominate(nz, pc.bb) and len(bo) == 1:
                            ok = True
                    continue
                if at.kind != 'bin' or at.key[0] not in ('Sub', 'SubWithOverflow', 'SubUnchecked'):
                    continue
                ln, size = noref(at.key[1]), noref(at.key[2])
                lc = sp.call_at(ln.key) if ln.kind == 'call' else None
                if lc is None or not lc.is_('VecDeque::len') or \
                        noref(sp.val(lc.args[0])) != noref(sp.val(o.args[0])):
                    continue
                nz = edges_where(sp, lambda v: noref(v) == size, lambda v: v.kind == 'const' and v.key == 0, 'ne')
                if nz and sp.edges_dominate(nz, pc.bb) and len(bo) == 1:
                    ok = True
        ctx.check(ok, rule, 'published-batch-is-non-empty', sp,
                  good='a split-off batch is published only when it is known to be non-empty (is_empty() false, or `size` jobs with size != 0)',
                  bad='split_and_push can publish an EMPTY batch: workers (%s) treat an empty batch from '
                      'pop() as "no more work", shut down and - through Drop - close the market and '
                      'discard the real batches: pending work is lost' % '/'.join(readers), span=pc.span)


def r10_initial_market(ctx, F, rule='C05-R10'):
    """JobBroker::new: the count of active workers starts at the number of workers. The last worker
    to run out of work closes the market when the count reaches zero; brokers held by threads that
    never wait in pop() (the timeout thread) are not workers."""
    import roles
    from taint import origin_vals
    b = roles.jm(F, 'new')
    ctx.touched(b)
    aggs = [st for (i, si, st) in b.assigns(lambda st: st['rv']['k'] == 'agg' and
                                            st['rv'].get('adt', '').endswith('JobMarket'))]
    if len(aggs) != 1:
        raise AnchorMissing('JobBroker::new: construction of JobMarket')
    st = aggs[0]
    f = dict(zip(st['rv']['fields'], st['rv']['ops']))
    if not {'open', 'thread_count', 'open_count', 'job_batches'} <= set(f):
        raise AnchorMissing('JobBroker::new: JobMarket fields %s' % sorted(f))

    def is_param(op):
        vs = origin_vals(b, op) if op.get('k') in ('copy', 'move') else set()
        return bool(vs) and all(v.kind == 'arg' and v.key == 1 and not v.projs for v in vs)
    ctx.check(is_param(f['open_count']) and is_param(f['thread_count']), rule, 'open-count-starts-at-worker-count', b,
              good='open_count and thread_count both start as the thread_count parameter',
              bad='JobBroker::new: open_count does not start as the number of workers (thread_count): the '
                  '"last active worker" test (open_count == 0) fires too early - work is abandoned - or never - '
                  'idle workers wait until the timeout although the search is finished')
    ov = b.val(f['open'])
    ctx.check(ov.kind == 'const' and ov.key == 1, rule, 'market-starts-open', b,
              good='the market starts open', bad='JobBroker::new: the market does not start open')


def r11_control_messages_lossless(ctx, F, rule='C05-R11'):
    """On-demand workers sleep in recv() until told what to do; the one RunToCompletion message is what lets a
    finite check terminate. So the control path must be lossless and complete: only blocking sends (a bounded
    channel with try_send / send_timeout drops the message when the receiver is behind), and the forwarder hands
    every message to every worker's channel."""
    sp = Spawn(F, 'OD')
    ctx.touched(sp.b)
    bodies = bodies_with_closures(F, sp.b)
    for b in F.bodies.values():
        if b.kind != 'Closure' and re.search(r'OnDemandChecker<M> as .*Checker<M>>::(check_fingerprint|run_to_completion)$|'
                                             r'OnDemandChecker::<M>::(check_fingerprint|run_to_completion)$', b.path):
            bodies += bodies_with_closures(F, b)
            ctx.touched(b)
    sends, lossy = [], []
    for b in bodies:
        nb = F.norm(b)
        for c in nb.calls:
            if re.search(r'mpsc::(Sync)?Sender(::<.*>)?::send$', c.short):
                sends.append((nb, c))
            elif re.search(r'mpsc::(Sync)?Sender(::<.*>)?::(try_send|send_timeout)$', c.short):
                lossy.append((nb, c))
    if not sends and not lossy:
        raise AnchorMissing('on-demand checker: sends on the control channels')
    ctx.check(not lossy, rule, 'control-sends-block', sp.b,
              good='control messages are sent with blocking / unbounded send only (%d sites)' % len(sends),
              bad='on-demand checker: a control message is sent with %s: when the receiving worker is behind (asleep in '
                  'the job market, busy with a block) the message is dropped - if it is RunToCompletion the worker '
                  'then waits in recv() forever and join() never returns' %
                  sorted(set(c.short.split('::')[-1] for (b_, c) in lossy)))
    # the forwarder: an outer loop over received messages, an inner loop over the workers' channels, one send per turn
    ok = False
    for (nb, c) in sends + lossy:
        heads = [h for h in nb.calls_to('Iterator::next') if nb.in_cycle(h.bb) and nb.dominates(h.bb, c.bb) and
                 h.targs and 'Sender<' in h.targs[0]]
        for h in heads:
            some = nb.branch(h, 'Some')
            r = nb.reach([e[1] for e in some], cut_blocks=[c.bb]) if some else {h.bb}
            # ... and the walk over the channels ends only when they are exhausted: no turn leaves it early (an
            # `any(..)` that stops at the first successful send reaches one worker only)
            body_ = nb.reach([e[1] for e in some], cut_blocks=[h.bb]) if some else set()
            outer = [h2 for h2 in nb.calls_to('Iterator::next', 'Receiver::recv') if h2 is not h and
                     nb.in_cycle(h2.bb) and nb.dominates(h2.bb, h.bb)]
            early = any(x in body_ for x in nb.returns) or any(h2.bb in body_ for h2 in outer)
            if h.bb not in r and not early:
                ok = True
    if not ok:
        # `channels.retain(|s| s.send(msg).is_ok())`: retain calls the closure once for every element, in order;
        # the send must be on every path of that closure
        from common import on_all_paths
        for b_ in bodies:
            for c in b_.calls_to('Vec::retain', 'Vec::retain_mut', 'VecDeque::retain'):
                if not (c.targs and 'Sender<' in c.targs[0]) or len(c.args) < 2:
                    continue
                cv = b_.val(c.args[1])
                cl = F.bodies.get(cv.key[1]) if cv.kind == 'agg' and cv.key[0] == 'closure' else None
                if cl is None:
                    continue
                ss = [x for x in cl.calls if re.search(r'mpsc::(Sync)?Sender(::<.*>)?::send$', x.short)]
                # (within the closure: no return is reachable without passing the send)
                if len(ss) == 1 and (ss[0].bb == 0 or not any(x in cl.reach([0], cut_blocks=[ss[0].bb]) for x in cl.returns)):
                    ok = True
    ctx.check(ok, rule, 'forwarder-reaches-every-worker', sp.b,
              good='the forwarder sends each control message on every worker channel',
              bad='on-demand checker: the forwarder does not send each control message to every worker channel: a '
                  'worker that never hears RunToCompletion waits forever')
    # workers: the blocking receive is the only way they learn about it - its Err (channel closed) edge must leave
    w = sp.worker
    recvs = w.calls_to('Receiver::recv')
    ctx.check(len(recvs) >= 1, rule, 'worker-blocks-in-recv', w,
              good='workers wait for control messages with a blocking recv()',
              bad='on-demand worker: no blocking recv() on the control channel')


def run(ctx):
    F = ctx.facts
    ctx.doc('C05-R1', 'no blocking call inside a live range of the job-market MutexGuard (Condvar::wait '
                      'on that same guard excepted)')
    ctx.doc('C05-R2', 'each `open = false` store and each job_batches.push is published by a notify in '
                      'the same critical section or by a JobBroker drop on every path to the exit')
    ctx.doc('C05-R3', 'after Condvar::wait every path to return re-tests job_batches.pop()')
    ctx.doc('C05-R4', 'open_count decremented before the wait and incremented after it on every path')
    ctx.doc('C05-R5', 'on open_count == 0 the worker notifies all and closes the market before returning')
    ctx.doc('C05-R6', 'Drop for JobBroker sets open=false, clears batches and notifies all on every path; '
                      'no JobBroker is leaked past its Drop')
    ctx.doc('C05-R7', 'every thread whose JoinHandle reaches `handles` captures a JobBroker by value')
    ctx.doc('C05-R8', 'check_block touches `generated` only through entry()/insert() single-call arbitration')
    with ctx.rule('C05-R1', 'job_market'):
        r1_no_blocking_under_lock(ctx, F)
    with ctx.rule('C05-R2', 'job_market'):
        r2_published(ctx, F)
    with ctx.rule('C05-R3', 'pop'):
        r3_r4_r5_pop(ctx, F)
    with ctx.rule('C05-R6', 'drop'):
        r6_drop(ctx, F)
    r7_joined_threads(ctx, F)
    r8_atomic_arbitration(ctx, F)
    ctx.doc('C05-R9', 'reader/writer agreement on the empty-batch shutdown signal: a batch split off a '
                      'worker queue is published only when non-empty')
    with ctx.rule('C05-R9', 'split_and_push'):
        r9_empty_batch_is_shutdown_signal(ctx, F)
    ctx.doc('C05-R10', 'JobBroker::new: open_count and thread_count start as the thread_count parameter; open = true')
    with ctx.rule('C05-R10', 'new'):
        r10_initial_market(ctx, F)
    ctx.doc('C05-R12', 'the initial jobs are on the market before the first worker is started (a market that is empty '
                       'while every worker is idle is taken for "the check is finished" and closed; a push to a closed '
                       'market is dropped)')
    import roles
    from checkers import Spawn
    for strat in ('BFS', 'DFS'):
        with ctx.rule('C05-R12', strat):
            sp = Spawn(F, strat)
            s_ = F.norm(sp.b)
            ctx.touched(sp.b)
            pushes = roles.calls_role(F, s_, 'push')
            starts = s_.calls_to('Builder::spawn', 'thread::spawn', 'Builder::spawn_scoped', 'Scope::spawn')
            if not pushes or not starts:
                raise AnchorMissing('%s spawn: JobBroker::push of the initial jobs / thread start (found %d / %d)' %
                                    (strat, len(pushes), len(starts)))
            ok = all(any(s_.dominates(p_.bb, t_.bb) for p_ in pushes) for t_ in starts)
            ctx.check(ok, 'C05-R12', 'initial-work-published-before-workers-start', sp.b,
                      good='the initial jobs are pushed before any worker thread is started',
                      bad='%s spawn starts a worker before the initial jobs are pushed: if every worker reaches pop() '
                          'first, the last one finds the market empty with nobody running, closes it, and the push '
                          'that follows is dropped - join() returns a "completed" check that evaluated nothing' %
                          strat, span=pushes[0].span)
    ctx.doc('C05-R11', 'on-demand control path is lossless: blocking sends only, forwarder reaches every worker channel, '
                       'workers wait in a blocking recv')
    with ctx.rule('C05-R11', 'on_demand'):
        r11_control_messages_lossless(ctx, F)
    # "when any worker stops (timeout, panic) all the others stop too": a busy worker has to look at the shutdown
    # state on every lap, not only when it runs out of work
    import c12
    ctx.doc('C12-R6', 'no cycle through check_block avoids every observer of the shutdown state')
    c12.r6_shutdown_observed(ctx, F)
    # "any number of worker threads": simulation workers explore different traces only if each one's rng is seeded
    # with its own per-thread seed
    ctx.doc('C12-R7', 'simulation: first trace uses the caller\'s seed; each worker\'s rng is seeded with its own seed')
    with ctx.rule('C12-R7', 'SIM'):
        c12.r7_seed(ctx, F)
    # "no pending unit of work is dropped": the frontier-conservation rules of C01
    import c01
    import c19
    ctx.doc('C01-R7', 'job market discards work only when closed; split pieces and pushed batches are stored; '
                      'pop returns a stored batch or empty')
    ctx.doc('C01-R10', 'worker-local job queues are (re)assigned only when empty')
    with ctx.rule('C01-R7', 'job_market'):
        c01.r7_market(ctx, F)
    c19.r5_worker_queue(ctx, F, rule='C01-R10', with_join=False)
