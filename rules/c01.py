"""C01 - exhaustive checkers evaluate exactly the reachable in-boundary state space."""
import re

from checkers import CB, EXHAUSTIVE, Spawn, is_arg, noref
from common import fmt_edges, iter_places
from mir import AnchorMissing, V

LEVEL_TEXT = (
    'Static path rules over BFS/DFS/on-demand check_block, their spawn functions and the job '
    'market: a successor is enqueued only after winning the insert-if-absent arbitration and is '
    'always enqueued when it wins; enqueue/arbitration/counting are control-dependent on '
    'within_boundary(successor)=true and initial states pass through the same filter; a dequeued job '
    'reaches Model::actions unless it leaves through the depth-limit skip or the nothing-awaited '
    'exit, and the block budget is tested before dequeuing; the successor loop has no exit other '
    'than exhaustion; counters are fed at the right points from the right sets; the market only '
    'discards work when closed; the visitor is called for every evaluated job with a path derived '
    'from that job. Does not compute that the visited set equals the reachable set for a given model.')

FLOORS = {'C05-R3': 2, 'C05-R4': 2, 'C05-R5': 3, 'C01-R1': 3, 'C01-R2': 3, 'C01-R3': 12, 'C01-R4': 8, 'C01-R5': 3, 'C01-R6': 12,
          'C01-R7': 5, 'C01-R8': 6, 'C01-R9': 3, 'C01-R10': 4, 'C19-R6': 3}


def new_edges(cb):
    e = []
    for (c, new, seen) in cb.arb:
        e += new
    return e


def loop_head(cb):
    """block of the iterator `next` that drives the successor loop"""
    b = cb.b
    if not cb.succ_direct:
        return cb.succ_call
    heads = [c for c in b.calls_to('Iterator::next') if b.dominates(c.bb, cb.succ_call.bb)
             and c.bb in b.reach([cb.succ_call.bb])]
    if not heads:
        raise AnchorMissing('%s: action loop head not found' % b.path)
    return max(heads, key=lambda c: len([1 for x in heads if b.dominates(x.bb, c.bb)]))


def r1_r2(ctx, cb):
    b = cb.b
    ctx.touched(b)
    starts = [e[1] for e in cb.succ_some]
    ne = new_edges(cb)
    r = b.reach(starts, cut_edges=ne)
    hit = [e for e in cb.enq if e.bb in r]
    ctx.check(not hit, 'C01-R1', 'insert-before-enqueue', b,
              good='enqueue unreachable from a successor without the "was absent" edge (%s)' % fmt_edges(ne),
              bad='%s: a successor can reach the enqueue at %s without winning the visited-set '
                  'arbitration (cut %s): a state is enqueued (and evaluated) more than once' %
                  (cb.strat, [h.span for h in hit], fmt_edges(ne)))
    # R2: marked visited => enqueued
    head = loop_head(cb)
    r2 = b.reach(cb.marked, cut_blocks=[e.bb for e in cb.enq])
    lost = []
    if head.bb in r2:
        lost.append('next successor (bb%d)' % head.bb)
    if any(x in r2 for x in b.returns):
        lost.append('function return')
    if cb.deq.bb in r2:
        lost.append('next dequeue')
    ctx.check(not lost, 'C01-R2', 'no-silent-loss', b,
              good='every path from a successful insert passes the enqueue',
              bad='%s: after a successor is marked visited there is a path to %s that skips the '
                  'enqueue: the state is never evaluated although it counts as visited' %
                  (cb.strat, lost))


def r3_boundary(ctx, F, cb):
    b = cb.b
    rule = 'C01-R3'
    starts = [e[1] for e in cb.succ_some]
    for what, blocks in (('enqueue', [e.bb for e in cb.enq]),
                         ('arbitration', [c.bb for (c, n, s_) in cb.arb] if cb.arb_atomic else
                          [c.bb for c in b.calls_to('DashMap::insert', 'DashSet::insert')
                           if is_arg(b.val(c.args[0]), cb.p_generated)])):
        ok = all(b.edges_dominate(cb.wb_true, x, frm=starts) for x in blocks)
        ctx.check(ok and bool(cb.wb_true), rule, '%s-after-boundary' % what, b,
                  good='%s is control-dependent on within_boundary(successor)=true' % what,
                  bad='%s: %s is reachable from a successor without within_boundary returning true: '
                      'out-of-boundary states are explored' % (cb.strat, what))
    # argument of within_boundary is the successor
    sv = succ_value(cb)
    wv = noref(b.val(cb.wb.args[1]))
    ctx.check(wv == sv, rule, 'boundary-of-successor', b,
              good='within_boundary is asked about the successor state',
              bad='%s: within_boundary is evaluated on %r, not on the successor %r' % (cb.strat, wv, sv))
    from taint import origin_vals
    for e in cb.enq:
        v = b.val(e.args[1])
        ok = v.kind == 'agg' and v.key[3] and noref(v.key[3][0]) == sv
        if not ok and e.args[1].get('k') in ('copy', 'move'):
            # the successor may have passed through a `filter(..)` / `Some(..)` join on its way here
            ok = origin_vals(b, e.args[1], extra=[{'f': 0}]) == {sv}
        ctx.check(ok, rule, 'enqueue-the-successor', b,
                  good='the enqueued state is the successor that was tested',
                  bad='%s: enqueued state is %r, not the successor %r' %
                      (cb.strat, v.key[3][0] if v.kind == 'agg' and v.key[3] else v, sv), span=e.span)
    spawn_seeding(ctx, F, cb, rule)


def spawn_seeding(ctx, F, cb, rule):
    """spawn(): everything the search is seeded with derives from init_states() elements that passed
    within_boundary, and the unfiltered vector reaches none of the seeds (dataflow, A13; closures of
    iterator chains are expanded first, A12, so a `for` loop and a `filter`/`map` chain read alike)."""
    import roles
    from taint import Taint, origin_calls
    sp = Spawn(F, cb.strat)
    ctx.touched(sp.b)
    s = F.norm(sp.b)
    init = s.one_call('Model::init_states', what='init_states in spawn')
    wbs = [c for c in s.calls_to('Model::within_boundary') if s.branch(c, True)]
    RAW, CLEAN = 'unfiltered', 'filtered'

    def san(l, bb, labels):
        if RAW in labels:
            lv = noref(s.local_val(l))
            for c in wbs:
                if noref(s.val(c.args[1])) == lv and s.edges_dominate(s.branch(c, True), bb):
                    return (labels - {RAW}) | {CLEAN}
        return labels
    T = Taint(s, {init.dest['l']: {RAW}}, san)
    okf = any(RAW in T.of_operand(c.args[1], c.bb) for c in wbs)
    ctx.check(okf, rule, 'init-filter', sp.b,
              good='the elements of init_states() are tested with within_boundary',
              bad='%s spawn: initial states are not filtered by within_boundary' % cb.strat)
    from common import collected_elements
    from taint import origins
    seeds = [c for c in s.calls_to('DashMap::insert', 'DashSet::insert')
             if c.targs and 'NonZero<u64>' in c.targs[0]]
    seed_keys = [(c, c.args[1], ()) for c in seeds]
    # ... or collected: `iter().map(|s| (fingerprint(s), None)).collect::<DashMap<..>>()`
    for (y, el, col) in collected_elements(s, lambda t: re.match(r'^dashmap::Dash(Map|Set)<std::num::NonZero<u64>', t) is not None):
        is_map = s.locals[col.dest['l']]['ty'].startswith('dashmap::DashMap')
        seed_keys.append((y, el, ({'f': 0},) if is_map else ()))
        seeds.append(y)
    ok_seed = bool(seed_keys)
    why = ''
    for c, key_op, extra in seed_keys:
        labels = T.of_operand(key_op, c.bb)
        if extra:
            org = set()
            for o in origins(s, dict(key_op, place=dict(key_op['place'], p=list(key_op['place']['p']) + list(extra)))):
                org.add(o if not isinstance(o, tuple) else 'other')
        else:
            org = origin_calls(s, key_op)
        if labels != {CLEAN}:
            ok_seed = False
            why = 'key derives from %s' % sorted(labels)
        elif not org or not all(o != 'other' and o.is_('fingerprint') for o in org):
            ok_seed = False
            why = 'key is not a fingerprint'
    ctx.check(ok_seed, rule, 'seed-generated-from-filtered', sp.b,
              good='initial visited entries are the fingerprints of the filtered initial states',
              bad='%s spawn: initial `generated` entries do not derive from the filtered '
                  'initial states (%s)' % (cb.strat, why or 'no seeding insert found'))
    pushes = roles.calls_role(F, s, 'push')
    okp = bool(pushes) and all(T.of_operand(pc.args[1], pc.bb) == {CLEAN} for pc in pushes)
    ctx.check(okp, rule, 'initial-jobs-from-filtered', sp.b,
              good='initial jobs are built from the filtered initial states',
              bad='%s spawn: initial jobs do not derive from the filtered initial states' % cb.strat)
    # the unfiltered vector escapes nowhere: not into a thread, a counter, the queue or the visited set
    leaks = []
    for (i, si, st) in s.assigns(lambda st: st['rv']['k'] == 'agg' and st['rv'].get('agg') == 'closure'):
        cl = F.bodies.get(st['rv']['closure'])
        if cl is not None and any(cl is x[0] for x in sp.thread_closures):
            if any(RAW in T.of_operand(o, i) for o in st['rv']['ops']):
                leaks.append('thread closure %s' % st['span'])
    for c in s.calls_to('AtomicUsize::new', 'Atomic::new') + seeds + pushes:
        if any(RAW in T.of_operand(a, c.bb) for a in c.args):
            leaks.append('%s@%s' % (c.short.split('::')[-1], c.span))
    ctx.check(not leaks, rule, 'init-single-consumer', sp.b,
              good='the unfiltered init_states() vector reaches no seed, counter or worker',
              bad='%s spawn: the unfiltered init_states() vector reaches %s: some consumer '
                  'bypasses the boundary filter' % (cb.strat, leaks))


def iter_source(s, nx):
    """for `Iterator::next(&mut it)`: the collection `it` was created from (through into_iter)"""
    v = noref(s.val(nx.args[0]))
    if v.kind == 'local':
        ds = s.defs.get(v.key, [])
        if len(ds) == 1 and ds[0][1] != 'call' and ds[0][2]['rv']['k'] == 'use':
            v = noref(s.val(ds[0][2]['rv']['op']))
    v = noref(s.trace(v, ('IntoIterator::into_iter', 'slice::iter', 'Vec::iter', 'Deref::deref')))
    return v


def succ_value(cb):
    b = cb.b
    return noref(V('call', cb.succ_call.bb, ('as Some', '.0')))


def depth_skip_edges(cb):
    """edges taken when the job's depth has reached target_max_depth"""
    b = cb.b
    if cb.p_target_depth is None:
        return None
    from common import edges_where

    def from_target(v):
        v = noref(b.trace(noref(v), ('NonZero::get',)))
        return v.kind == 'arg' and v.key == cb.p_target_depth

    def from_depth(v):
        return cb.job_field(noref(v)) == 3
    # `depth >= target`, however it is spelled (target <= depth, !(depth < target), ...)
    return edges_where(b, from_depth, from_target, 'ge')


def awaiting_flag_exit(cb):
    """False-edges of the bool flag tested right after the property loop is exhausted."""
    b = cb.b
    none_t = [e[1] for e in cb.prop_loop_none]
    out = []
    for sw in b.switches:
        if sw.kind == 'bool' and sw.on.kind == 'local' and b.const_stores(sw.on.key):
            if sw.bb in none_t or any(b.dominates(t, sw.bb) and sw.bb in b.reach([t], cut_blocks=[cb.actions.bb])
                                      for t in none_t):
                if b.dominates(sw.bb, cb.actions.bb):
                    out.append(sw)
    return out


def r4_expand_or_sanctioned(ctx, cb):
    b = cb.b
    rule = 'C01-R4'
    sanctioned = []
    de = depth_skip_edges(cb)
    if de:
        sanctioned += de
    aw = awaiting_flag_exit(cb)
    if len(aw) != 1:
        raise AnchorMissing('%s: the "nothing awaited" test after the property loop (found %d)' %
                            (b.path, len(aw)))
    sanctioned += aw[0].edges_for(False)
    # ... and that exit is sound: the flag is raised for every property that still has no discovery
    # (an Always/Sometimes arm may record the discovery instead)
    fl = aw[0].on.key
    raised = [bb for (bb, si, v) in b.const_stores(fl) if v == 1]
    tests = [c for c in cb.disc_contains if b.dominates(cb.prop_loop.bb, c.bb) and b.dominates(c.bb, cb.exp_main.bb)]
    recorded = [c.bb for c in cb.disc_inserts] + [c.bb for c in b.calls_to('Entry::or_insert', 'Entry::or_insert_with',
                                                                        'VacantEntry::insert')
                                                  if b.dominates(cb.exp_main.bb, c.bb)]
    undiscovered = [e[1] for c in tests for e in b.branch(c, False)]
    ru = b.reach(undiscovered, cut_blocks=raised + recorded) if undiscovered else set()
    ctx.check(bool(tests) and bool(undiscovered) and bool(raised) and cb.prop_loop.bb not in ru, rule,
              'awaiting-flag-raised-for-every-open-property', b,
              good='a property without a discovery either gets one or raises the "still awaiting" flag',
              bad='%s: a property that has no discovery yet can pass through the property loop without raising '
                  'the "still awaiting discoveries" flag and without being recorded: the nothing-awaited exit then '
                  'drops the job (and whatever else was drained with it) although a verdict is still open' % cb.strat)
    starts = [e[1] for e in cb.deq_some]
    r = b.reach(starts, cut_edges=sanctioned, cut_blocks=[cb.actions.bb])
    escapes = []
    if cb.deq.bb in r:
        escapes.append('the next dequeue')
    if any(x in r for x in b.returns):
        escapes.append('function return')
    ctx.check(not escapes, rule, 'dequeued-job-is-expanded', b,
              good='every path from a dequeued job reaches Model::actions unless it takes the '
                   'depth-limit skip or the nothing-awaited exit (%s)' % fmt_edges(sanctioned),
              bad='%s: a dequeued job can reach %s without being expanded and without taking a '
                  'sanctioned exit: reachable states behind it are never generated' % (cb.strat, escapes))
    # actions() is called on the dequeued state
    f = cb.job_field(b.val(cb.actions.args[1]))
    ctx.check(f == 0, rule, 'actions-of-dequeued-state', b,
              good='Model::actions is asked about the dequeued state',
              bad='%s: Model::actions is called on %r, not the dequeued state' % (cb.strat, b.val(cb.actions.args[1])))
    if cb.strat in ('BFS', 'DFS'):
        budget = []
        for sw in b.switches:
            on = sw.on
            if on.kind == 'bin' and on.key[0] in ('Eq', 'Le', 'Lt', 'Ne', 'Gt', 'Ge'):
                ops = [noref(x) for x in on.key[1:]]
                if any(o.kind in ('arg', 'local') and o.key == cb.p_max_count and not o.projs for o in ops):
                    budget.append(sw)
        ok = any(b.dominates(sw.bb, cb.deq.bb) and sw.bb != cb.deq.bb for sw in budget)
        if not ok:
            # `for _ in 0..max_count`: the dequeue sits in the body of a loop over a range that ends at the budget
            for c in b.calls_to('Iterator::next'):
                src = noref(b.trace(b.val(c.args[0]), ('IntoIterator::into_iter',)))
                if src.kind == 'agg' and 'Range' in str(src.key[1]) and \
                        any(noref(o).kind == 'arg' and noref(o).key == cb.p_max_count for o in src.key[3]):
                    se = b.branch(c, 'Some')
                    if se and b.edges_dominate(se, cb.deq.bb):
                        ok = True
        ctx.check(ok, rule, 'budget-test-before-dequeue', b,
                  good='the block budget is tested before a job is dequeued',
                  bad='%s: no test of the block budget dominates the dequeue: when the budget runs out '
                      'a job that was already popped is dropped' % cb.strat)
        ctx.check(cb.deq_on_param, rule, 'dequeue-from-pending', b,
                  good='jobs are dequeued from the pending parameter',
                  bad='%s: dequeue does not operate on the pending parameter' % cb.strat)
    else:
        # OD: jobs are drained from a prefix of pending into a local batch that is fully consumed
        v = noref(b.trace(b.val(cb.deq.args[0]), ()))
        ok = False
        if v.kind in ('call', 'local'):
            src = v
            if v.kind == 'local':
                ds = b.defs.get(v.key, [])
                if len(ds) == 1 and ds[0][1] == 'call':
                    src = V('call', ds[0][0])
            if src.kind == 'call':
                t = noref(b.trace(src, ('Iterator::collect',)))
                c = b.call_at(t.key) if t.kind == 'call' else None
                if c is not None and c.is_('VecDeque::drain') and is_arg(b.val(c.args[0]), cb.p_pending):
                    ok = True
        ctx.check(ok, rule, 'batch-drained-from-pending', b,
                  good='the local batch is drained from the pending parameter',
                  bad='OD: the local batch does not derive from pending.drain(..)')


def r5_all_actions(ctx, cb):
    b = cb.b
    head = loop_head(cb)
    starts = [e[1] for e in b.branch(head, 'Some')]
    r = b.reach(starts, cut_blocks=[head.bb])
    exits = []
    if any(x in r for x in b.returns):
        exits.append('return')
    if cb.deq.bb in r:
        exits.append('next dequeue')
    ctx.check(not exits, 'C01-R5', 'no-early-exit-from-successor-loop', b,
              good='the successor loop can only be left by exhausting the action iterator',
              bad='%s: the successor loop can be left early (%s) before all actions were tried: '
                  'some successors are never generated' % (cb.strat, exits))
    # the iterator covers the actions vector filled by Model::actions
    av = noref(b.val(cb.actions.args[2]))
    src = None
    if cb.succ_direct:
        src = iter_source(b, head)
    else:
        v = noref(b.val(head.args[0]))
        if v.kind == 'local':
            ds = b.defs.get(v.key, [])
            if len(ds) == 1 and ds[0][1] != 'call' and ds[0][2]['rv']['k'] == 'use':
                v = noref(b.val(ds[0][2]['rv']['op']))
        src = noref(b.trace(v, ('IntoIterator::into_iter', 'Iterator::flat_map', 'Iterator::filter_map',
                                'Iterator::map')))
    drain = b.call_at(src.key) if src is not None and src.kind == 'call' else None
    ok = drain is not None and drain.is_('Vec::drain', 'IntoIterator::into_iter', 'Vec::iter') and \
        noref(b.val(drain.args[0])) == av
    full = True
    if drain is not None and drain.is_('Vec::drain'):
        rng = b.val(drain.args[1])
        full = rng.kind == 'agg' and 'RangeFull' in str(rng.key[1])
    ctx.check(ok and full, 'C01-R5', 'iterates-all-actions', b,
              good='the loop iterates the whole vector filled by Model::actions',
              bad='%s: the successor loop does not iterate the full actions vector (source %r, full '
                  'range %s)' % (cb.strat, src, full))


def r6_counters(ctx, F, cb):
    b = cb.b
    rule = 'C01-R6'
    new_targets = cb.marked
    r = b.reach([e[1] for e in cb.succ_some], cut_blocks=[c.bb for c in cb.fetch_adds])
    ok = bool(new_targets) and not any(x in r for x in new_targets)
    ctx.check(ok, rule, 'count-before-arbitration', b,
              good='every successor that can be newly inserted has been counted in state_count first',
              bad='%s: state_count is not incremented before every visited-set arbitration: '
                  'state_count can fall below unique_state_count' % cb.strat)
    ones = [b.val(c.args[1]) for c in cb.fetch_adds]
    one = ones[0]
    ctx.check(all(o.kind == 'const' and o.key == 1 for o in ones), rule, 'count-by-one', b,
              good='state_count incremented by 1', bad='%s: state_count increment is %r' % (cb.strat, one))
    sp = Spawn(F, cb.strat)
    s = sp.b
    # state_count initialised from filtered init vec len
    news = [c for c in s.calls_to('Atomic::new')]
    ok = False
    for c in news:
        v = s.val(c.args[0])
        if v.kind == 'call':
            ln = s.call_at(v.key)
            if ln is not None and ln.is_('Vec::len'):
                src = noref(s.val(ln.args[0]))
                cc = s.call_at(src.key) if src.kind == 'call' else None
                if cc is not None and cc.is_('Iterator::collect'):
                    ok = True
    ctx.check(ok, rule, 'count-initialised-from-filtered-init', s,
              good='state_count starts at the number of filtered initial states',
              bad='%s spawn: state_count is not initialised with the filtered initial-state count' % cb.strat)
    # unique_state_count == generated.len() and the `generated` field is the set check_block uses
    ck = {'BFS': 'checker::bfs::BfsChecker', 'DFS': 'checker::dfs::DfsChecker',
          'OD': 'checker::on_demand::OnDemandChecker'}[cb.strat]
    u = F.body('<%s<M> as checker::Checker<M>>::unique_state_count' % ck)
    ln = [c for c in u.calls_to('DashMap::len', 'DashSet::len')]
    okf = False
    if len(ln) == 1:
        v = noref(u.trace(u.val(ln[0].args[0]), ('Deref::deref',)))
        okf = v.kind == 'arg' and v.fields() == ('.generated',)
    ctx.check(okf, rule, 'unique-is-len-of-generated', u,
              good='unique_state_count() = self.generated.len()',
              bad='%s: unique_state_count() is not the size of the `generated` set' % cb.strat)
    sc = F.body('<%s<M> as checker::Checker<M>>::state_count' % ck)
    ld = sc.calls_to('Atomic::load')
    oks = False
    if len(ld) == 1:
        v = noref(sc.trace(sc.val(ld[0].args[0]), ('Deref::deref',)))
        oks = v.kind == 'arg' and v.fields() == ('.state_count',)
    ctx.check(oks, rule, 'state_count-getter', sc, good='state_count() loads self.state_count',
              bad='%s: state_count() does not load the state_count field' % cb.strat)
    # field identity: struct field `generated` / `state_count` is the Arc whose clone the worker got
    agg = None
    for (bb, si, st) in s.assigns(lambda st: st['rv']['k'] == 'agg' and st['rv'].get('adt') == ck):
        agg = st
    if agg is None:
        raise AnchorMissing('%s: construction of %s' % (s.path, ck))
    names = agg['rv']['fields']
    for fname, pidx in (('generated', cb.p_generated), ('state_count', cb.fetch_add)):
        fv = noref(s.val(agg['rv']['ops'][names.index(fname)]))
        # argument of check_block in the worker
        w = sp.worker
        if fname == 'generated':
            a = sp.check_call.args[pidx - 1]
        else:
            argl = noref(b.val(cb.fetch_add.args[0]))
            a = sp.check_call.args[argl.key - 1]
        av = noref(w.trace(w.val(a), ('Deref::deref',)))
        ok = False
        if av.kind == 'arg' and av.key == 1 and av.fields():
            idx = int(av.fields()[0][1:])
            par, uv = sp.upvar_source(idx)
            uv = noref(par.trace(uv, ('Clone::clone', 'Arc::clone')))
            ok = uv == fv
        ctx.check(ok, rule, 'field-identity-%s' % fname, s,
                  good='the %s handed to check_block is a clone of the Arc stored in the checker' % fname,
                  bad='%s: the `%s` the workers update is not the one the checker reports from' %
                      (cb.strat, fname))


def r7_market(ctx, F):
    rule = 'C01-R7'
    jm = [b for b in F.bodies.values() if b.path.startswith('job_market::') or
          b.path.startswith('<job_market::')]
    if len(jm) < 6:
        raise AnchorMissing('job_market functions (found %d)' % len(jm))
    nclear = 0
    for b in jm:
        takes = [c for c in b.calls_to('mem::take', 'mem::replace') if c.args and
                 noref(b.trace(b.val(c.args[0]), ('DerefMut::deref_mut', 'Deref::deref'))).fields()[-1:] == ('.job_batches',)]
        for c in b.calls_to('VecDeque::clear', 'Vec::clear', 'Vec::truncate', 'VecDeque::truncate',
                            'Vec::drain', 'VecDeque::drain') + takes:
            nclear += 1
            in_drop = b.path.startswith('<job_market::JobBroker<Job> as std::ops::Drop>')
            closed = False
            for sw in b.switches:
                if sw.kind == 'bool' and sw.on.fields() and sw.on.fields()[-1] == '.open':
                    fe = sw.edges_for(False)
                    if fe and b.edges_dominate(fe, c.bb):
                        closed = True
            ctx.check(in_drop or closed, rule, 'discard-only-when-closed@%s' % c.short.split('::')[-1], b,
                      good='work is discarded only when the market is closed (or in Drop)',
                      bad='%s discards queued work (%s) on a path where the market may still be open: '
                          'pending jobs are lost' % (b.path, c.short), span=c.span)
    if nclear < 2:
        raise AnchorMissing('expected >=2 discard sites in job_market, found %d' % nclear)
    # split_and_push: every split-off piece is pushed unless empty
    import roles
    sp = roles.jm(F, 'split_and_push')
    ctx.touched(sp)
    so = sp.one_call('VecDeque::split_off', what='split_off')
    pushes = [c for c in sp.calls_to('Vec::push')]
    from taint import origins as _origins
    emp = [c for c in sp.calls_to('VecDeque::is_empty') if _origins(sp, c.args[0]) == {so}]
    cut = []
    for c in emp:
        cut += sp.branch(c, True)
    r = sp.reach([so.target], cut_edges=cut, cut_blocks=[p.bb for p in pushes])
    lost = so.bb in r or any(x in r for x in sp.returns)
    okv = any(_origins(sp, p.args[1]) == {so} for p in pushes)
    ctx.check(not lost and okv, rule, 'split-pieces-are-pushed', sp,
              good='every non-empty piece split off the local queue is pushed to the market',
              bad='split_and_push: a piece split off the worker\'s queue can be dropped without being '
                  'pushed to the market')
    # pop returns a batch removed from job_batches or an empty deque
    pop = roles.jm(F, 'pop')
    ctx.touched(pop)
    ok = True
    n = 0
    for (bb, si, st) in pop.defs.get(0, []):
        n += 1
        if si == 'call':
            c = pop.call_at(bb)
            if not c.is_('VecDeque::new'):
                ok = False
        else:
            v = noref(pop.val(st['rv']['op'])) if st['rv']['k'] == 'use' else None
            c = pop.call_at(v.key) if v is not None and v.kind == 'call' else None
            if c is None or not c.is_('Vec::pop'):
                ok = False
            else:
                recv = noref(pop.trace(pop.val(c.args[0]), ('DerefMut::deref_mut', 'Deref::deref')))
                if not (recv.fields() and recv.fields()[-1] == '.job_batches'):
                    ok = False
    if not ok:
        # single exit: `let claimed = 'claim: { .. break 'claim Some(jobs); .. break 'claim None; }; claimed
        # .unwrap_or_default()` - every value the result can stand for is a popped batch or an empty deque
        from taint import vals_of

        def popped(c):
            if c is None or not c.is_('Vec::pop'):
                return False
            recv = noref(pop.trace(pop.val(c.args[0]), ('DerefMut::deref_mut', 'Deref::deref')))
            return bool(recv.fields()) and recv.fields()[-1] == '.job_batches'

        def fine(v, depth=0):
            v = noref(v)
            if depth > 6:
                return False
            if v.kind == 'call':
                c = pop.call_at(v.key)
                if c is None:
                    return False
                if not v.fields() and c.is_('VecDeque::new', 'Default::default'):
                    return True
                if popped(c):
                    return True          # the Option itself, or its `as Some` payload
                if not v.fields() and c.is_('Option::unwrap_or_default', 'Option::unwrap_or', 'Option::unwrap_or_else'):
                    alts = [fine(pop.val(c.args[0]), depth + 1)]
                    if c.is_('Option::unwrap_or'):
                        alts.append(fine(pop.val(c.args[1]), depth + 1))
                    return all(alts)
                return False
            if v.kind == 'agg':
                if v.key[2] == 'None':
                    return True
                if v.key[2] == 'Some' and v.key[3]:
                    return fine(v.key[3][0], depth + 1)
                return False
            if v.kind == 'local' and not v.fields():
                ds = [d for d in pop.defs.get(v.key, []) if d[1] == 'call' or not d[2]['lhs']['p']]
                res = []
                for d in ds:
                    if d[1] == 'call':
                        res.append(fine(V('call', d[0]), depth + 1))
                    elif d[2]['rv']['k'] == 'agg' and d[2]['rv'].get('adt') == 'std::option::Option':
                        ops_ = d[2]['rv']['ops']
                        res.append(d[2]['rv'].get('variant') == 'None' or
                                   (len(ops_) == 1 and fine(pop.val(ops_[0]), depth + 1)))
                    elif d[2]['rv']['k'] == 'use':
                        res.append(fine(pop.val(d[2]['rv']['op']), depth + 1))
                    else:
                        res.append(False)
                return bool(res) and all(res)
            if v.kind == 'local':
                alts = set(noref(x) for x in vals_of(pop, v))
                return bool(alts) and alts != {v} and all(fine(x, depth + 1) for x in alts)
            return False
        n = 0
        ok = True
        for (bb, si, st) in pop.defs.get(0, []):
            n += 2
            if si == 'call':
                ok = ok and fine(V('call', bb))
            else:
                ok = ok and st['rv']['k'] == 'use' and fine(pop.val(st['rv']['op']))
    ctx.check(ok and n >= 2, rule, 'pop-returns-batch-or-empty', pop,
              good='pop() returns a batch removed from job_batches or an empty deque',
              bad='JobBroker::pop returns something other than a batch removed from job_batches or '
                  'an empty deque')
    # push: the batch is stored unless the market is closed
    push = roles.jm(F, 'push')
    ctx.touched(push)
    vp = push.calls_to('Vec::push')
    okp = len(vp) == 1 and noref(push.val(vp[0].args[1])) == V('arg', 2)
    cutp = []
    for sw in push.switches:
        if sw.kind == 'bool' and sw.on.fields() and sw.on.fields()[-1] == '.open':
            cutp += sw.edges_for(False)
    rp = push.reach([0], cut_edges=cutp, cut_blocks=[c.bb for c in vp])
    okp = okp and not any(x in rp for x in push.returns)
    ctx.check(okp, rule, 'push-stores-batch', push,
              good='push() stores the batch unless the market is closed',
              bad='JobBroker::push can return without storing the batch while the market is open')


def r8_visitor(ctx, F, cb):
    b = cb.b
    rule = 'C01-R8'
    if len(cb.visit) != 1:
        raise AnchorMissing('%s: expected one CheckerVisitor::visit call, found %d' % (b.path, len(cb.visit)))
    visit = cb.visit[0]
    # every path from the dequeue to the property loop passes visit or the visitor=None edge
    none_edges = []
    for sw in b.switches:
        if sw.kind == 'variant' and noref(sw.on) == V('arg', cb.p_visitor):
            none_edges += sw.edges_not('Some')
    de = depth_skip_edges(cb) or []
    starts = [e[1] for e in cb.deq_some]
    r = b.reach(starts, cut_edges=none_edges + de, cut_blocks=[visit.bb])
    ctx.check(cb.prop_loop.bb not in r and bool(none_edges), rule, 'visit-before-evaluation', b,
              good='every evaluated job is shown to the visitor (when one is configured)',
              bad='%s: a job can reach property evaluation without the visitor being called' % cb.strat)
    # not called for depth-skipped jobs
    if de:
        ok = not any(visit.bb in b.reach([e[1]], cut_blocks=[cb.deq.bb]) for e in de)
        ctx.check(ok, rule, 'no-visit-for-skipped', b,
                  good='jobs skipped by the depth limit are not shown to the visitor',
                  bad='%s: a job skipped by the depth limit is still shown to the visitor' % cb.strat)
    # path argument derives from the job's fingerprint(s)
    pv = b.val(visit.args[2])
    ok = False
    if pv.kind == 'call':
        pc = b.call_at(pv.key)
        import roles
        if pc is not None and roles.is_reconstruct_path_call(F, pc):
            ok = cb.job_field(b.val(pc.args[2])) == 1 and is_arg(b.val(pc.args[1]), cb.p_generated)
        elif pc is not None and pc.is_('Path::from_fingerprints'):
            v = b.trace(b.val(pc.args[1]), ('From::from', 'Clone::clone', 'Into::into'))
            ok = cb.job_field(v) == 1
    ctx.check(ok, rule, 'visit-path-of-job', b,
              good='the path shown to the visitor is rebuilt from the dequeued job\'s fingerprint(s)',
              bad='%s: the path handed to the visitor (%r) does not derive from the dequeued job' %
                  (cb.strat, pv), span=visit.span)


def coverage_rules(ctx, F, with_docs=True):
    """The state-space coverage rules (R1-R5, R7, R9, R10). Also evaluated by C02 and C11, whose
    "if and only if" statements presuppose that every reachable in-boundary state is evaluated."""
    import c05
    import c19
    if with_docs:
        _docs(ctx)
    for strat in EXHAUSTIVE:
        with ctx.rule('C01-R1', strat):
            r1_r2(ctx, CB(F, strat))
        with ctx.rule('C01-R3', strat):
            r3_boundary(ctx, F, CB(F, strat))
        with ctx.rule('C01-R4', strat):
            r4_expand_or_sanctioned(ctx, CB(F, strat))
        with ctx.rule('C01-R5', strat):
            r5_all_actions(ctx, CB(F, strat))
    with ctx.rule('C01-R7', 'job_market'):
        r7_market(ctx, F)
    c05.r8_atomic_arbitration(ctx, F, rule='C01-R9')
    c19.r5_worker_queue(ctx, F, rule='C01-R10', with_join=False)
    with ctx.rule('C05-R9', 'split_and_push'):
        c05.r9_empty_batch_is_shutdown_signal(ctx, F)


def _docs(ctx):
    ctx.doc('C01-R1', 'cut the "was absent" edges of the visited-set arbitration: enqueue must be '
                      'unreachable from a successor')
    ctx.doc('C01-R2', 'cut the enqueue: from a successful insert neither the next successor, the next '
                      'dequeue nor return may be reachable')
    ctx.doc('C01-R3', 'enqueue/arbitration are dominated by within_boundary(successor)=true; '
                      'initial states flow only through filter(within_boundary) into both the visited '
                      'set and the initial jobs')
    ctx.doc('C01-R4', 'from the dequeue, every path to the next dequeue/return passes Model::actions '
                      'after cutting the depth-limit skip and the nothing-awaited exit; budget test '
                      'dominates the dequeue')
    ctx.doc('C01-R5', 'successor loop has no exit but exhaustion and iterates the whole actions vector')
    ctx.doc('C01-R6', 'state_count incremented (by 1) before any new insert, initialised from the filtered '
                      'init vector; getters read the fields the workers update')
    ctx.doc('C01-R7', 'job market discards work only when closed; split pieces and pushed batches are '
                      'stored; pop returns a stored batch or empty')
    ctx.doc('C01-R8', 'visitor is called for every evaluated job with a path rebuilt from that job')
    ctx.doc('C01-R9', 'the visited set is only touched through single-call (atomic) insert-if-absent '
                      'arbitration, so no state is enqueued by two workers')
    ctx.doc('C05-R9', 'an empty batch is the workers\' shutdown signal: a batch split off a queue is published only '
                      'when non-empty (otherwise pending work is abandoned)')
    ctx.doc('C01-R10', 'worker-local job queues are (re)assigned only when empty; the on-demand worker appends '
                       'processed/new jobs back to its pending queue')


def run(ctx):
    F = ctx.facts
    coverage_rules(ctx, F)
    # "exactly those reachable": with several workers the market may close only when nobody holds or can still be
    # handed work - the accounting of running workers in JobBroker::pop
    import c05
    ctx.doc('C05-R3', 'after Condvar::wait every path to return re-tests job_batches.pop()')
    ctx.doc('C05-R4', 'open_count decremented before the wait and incremented after it on every path')
    ctx.doc('C05-R5', 'on open_count == 0 the worker notifies all and closes the market before returning')
    with ctx.rule('C05-R3', 'pop'):
        c05.r3_r4_r5_pop(ctx, F)
    for strat in EXHAUSTIVE:
        with ctx.rule('C01-R6', strat):
            r6_counters(ctx, F, CB(F, strat))
        with ctx.rule('C01-R8', strat):
            r8_visitor(ctx, F, CB(F, strat))
    # the path shown to the visitor is rebuilt through Model::next_steps: its pairs must be real steps
    import c19
    ctx.doc('C19-R6', 'Model::next_steps pairs every action with next_state(last_state, that action)')
    with ctx.rule('C19-R6', 'next_steps'):
        c19.r6_next_steps(ctx, F)
