"""C10 - symmetry reduction: structural clauses."""
import re

from actor_rules import ACTIONS, NS, PC, is_usize_from_id, noref
from checkers import CB, Spawn, is_arg
from common import bodies_with_closures, iter_places, outer_val
from mir import AnchorMissing, V

LEVEL_TEXT = (
    'Static rules: ActorModelState::representative builds every field from one plan - the vectors '
    'that the actor model indexes by actor id (derived from the Index/IndexMut sites of '
    'next_state/process_commands/actions) are permuted with RewritePlan::reindex, the remaining '
    'fields are rewritten with Rewrite::rewrite, all with the same plan value; plans are built with '
    'stable sorts only; in DFS and simulation the value returned by the symmetry function flows only '
    'into fingerprint -> visited-set insert, while the enqueued state and the fingerprint appended to '
    'the path come from the un-canonicalised successor; every Rewrite impl of a local type rewrites '
    '(not just clones) each field whose type mentions Id or a Rewrite-bounded parameter; '
    'DenseNatMap::rewrite re-keys through the (K, V) FromIterator impl. Verdict preservation for '
    'symmetric models is not decided.')

FLOORS = {'C10-R1': 8, 'C10-R2': 2, 'C10-R3': 5, 'C10-R4': 8, 'C10-R5': 6}

REPR = '<actor::model_state::ActorModelState<A, H> as checker::representative::Representative>::representative'
STATE = 'actor::model_state::ActorModelState'


def actor_indexed_fields(F):
    """fields of ActorModelState that actor::model indexes with usize::from(Id) / an actor index"""
    out = set()
    import roles
    for path in (NS, PC, ACTIONS):
        b = roles.process_commands(F) if path == PC else F.body(path)
        for x in bodies_with_closures(F, b):
            for c in x.calls_to('Index::index', 'IndexMut::index_mut', 'slice::get', 'Vec::get'):
                if len(c.args) < 2:
                    continue
                recv = noref(x.trace(x.val(c.args[0]), ('Deref::deref', 'DerefMut::deref_mut')))
                fs = recv.fields()
                if not fs:
                    continue
                iv = noref(x.val(c.args[1]))
                src = x.call_at(iv.key) if iv.kind == 'call' else None
                if src is not None and is_usize_from_id(src):
                    # receiver rooted in an ActorModelState value?
                    root_l = None
                    f = fs[-1][1:]
                    out.add(f)
    adt = F.adt(STATE)
    names = [f['name'] for f in adt['variants'][0]['fields']]
    return set(f for f in out if f in names)


def r1_representative(ctx, F):
    rule = 'C10-R1'
    b = F.body(REPR, 'ActorModelState::representative')
    ctx.touched(b)
    adt = F.adt(STATE)
    names = [f['name'] for f in adt['variants'][0]['fields']]
    aggs = [(i, st) for (i, si, st) in b.assigns(lambda st: st['rv']['k'] == 'agg' and st['rv'].get('adt') == STATE)]
    if len(aggs) != 1:
        raise AnchorMissing('representative(): construction of ActorModelState')
    st = aggs[0][1]
    fields = st['rv']['fields']
    indexed = actor_indexed_fields(F)
    if not indexed:
        raise AnchorMissing('no actor-indexed field of ActorModelState found in actor::model')
    plans = set()
    for fname, op in zip(fields, st['rv']['ops']):
        v = b.val(op)
        c = b.call_at(v.key) if v.kind == 'call' else None
        role = 'field-%s' % fname
        if c is None or not c.is_('RewritePlan::reindex', 'Rewrite::rewrite'):
            ctx.bad(rule, role, b, 'representative(): field `%s` is built from %r, not from reindex/rewrite '
                                   'under the plan: it is not permuted with the rest of the state' % (fname, v))
            continue
        is_reindex = c.is_('RewritePlan::reindex')
        if is_reindex:
            plan_v, src_v = noref(b.val(c.args[0])), noref(b.val(c.args[1]))
        else:
            src_v, plan_v = noref(b.val(c.args[0])), noref(b.val(c.args[1]))
        plans.add(repr(plan_v))
        # the transformed value goes into the result as it is: nothing re-orders or edits it afterwards
        chain = set([c.dest['l']])
        if op.get('k') in ('copy', 'move'):
            chain.add(op['place']['l'])
        grew = True
        while grew:
            grew = False
            for (i_, si_, st_) in b.assigns(lambda s_: s_['rv']['k'] == 'use' and s_['rv']['op'].get('k') in ('copy', 'move')
                                            and not s_['rv']['op']['place']['p'] and not s_['lhs']['p']):
                if st_['rv']['op']['place']['l'] in chain and st_['lhs']['l'] not in chain:
                    chain.add(st_['lhs']['l'])
                    grew = True
        touched = [st_['span'] for (i_, si_, st_) in b.assigns(lambda s_: s_['rv']['k'] == 'ref' and s_['rv'].get('mut')
                                                              and s_['rv']['place']['l'] in chain)]
        touched += [st_['span'] for (i_, si_, st_) in b.assigns(lambda s_: s_['lhs']['l'] in chain and s_['lhs']['p'])]
        ctx.check(not touched, rule, role + '-used-as-computed', b,
                  good='the transformed `%s` is stored unmodified' % fname,
                  bad='representative(): the reindexed/rewritten `%s` is modified again before it is stored (%s): it '
                      'then follows a different permutation than the other fields, so the result is not the image of '
                      'the state under one permutation' % (fname, touched))
        ok_src = src_v.kind == 'arg' and src_v.key == 1 and src_v.fields() == ('.' + fname,)
        ctx.check(ok_src, rule, role + '-source', b,
                  good='field `%s` is computed from self.%s' % (fname, fname),
                  bad='representative(): field `%s` is computed from %r' % (fname, src_v))
        if fname in indexed:
            ctx.check(is_reindex, rule, role + '-permuted', b,
                      good='`%s` is indexed by actor id in the model and is permuted with reindex' % fname,
                      bad='representative(): `%s` is indexed by actor id in actor::model but is only '
                          'element-wise rewritten, not reindexed: its entries stay at the old positions while '
                          'the other per-actor vectors are permuted, so the result is not the image of the '
                          'state under one permutation' % fname)
        else:
            ctx.check(not is_reindex, rule, role + '-rewritten', b,
                      good='`%s` is not actor-indexed and is rewritten element-wise' % fname,
                      bad='representative(): `%s` is not indexed by actor id but is reindexed' % fname)
    missing = [n for n in names if n not in fields]
    ctx.check(not missing and len(plans) == 1, rule, 'one-plan-all-fields', b,
              good='all %d fields are transformed under the same plan' % len(names),
              bad='representative(): fields %s missing or several plans used (%s)' % (missing, sorted(plans)))
    # the plan sorts the actor states
    pl = b.calls_to('RewritePlan::from_values_to_sort')
    okp = len(pl) == 1 and noref(b.val(pl[0].args[0])).fields() == ('.actor_states',)
    ctx.check(okp, rule, 'plan-from-actor-states', b,
              good='the plan is the sorting permutation of actor_states',
              bad='representative(): the plan is not built from self.actor_states')


def r2_stable_sorts(ctx, F):
    rule = 'C10-R2'
    for name in ('from_values_to_sort', 'reindex'):
        bs = [x for x in F.bodies.values() if x.kind != 'Closure' and
              re.search(r'rewrite_plan::RewritePlan.*::%s$' % name, x.path)]
        if len(bs) != 1:
            raise AnchorMissing('RewritePlan::%s (found %d)' % (name, len(bs)))
        b = bs[0]
        ctx.touched(b)
        sorts = [c for x in bodies_with_closures(F, b) for c in x.calls if re.search(r'::sort\w*$', c.short)]
        unstable = [c for c in sorts if 'unstable' in c.short or 'select_nth' in c.short]
        ctx.check(bool(sorts) and not unstable, rule, 'stable-sort@' + name, b,
                  good='%s uses stable sorts only (%s)' % (name, sorted(set(c.short.split('::')[-1] for c in sorts))),
                  bad='RewritePlan::%s sorts with %s: equal elements may be permuted arbitrarily, so equal '
                      'states get different representatives (and the plan is not the stable permutation)' %
                      (name, [c.short.split('::')[-1] for c in unstable]))


def uses_of_local(b, l):
    return [(bb, p, c) for (bb, p, c) in iter_places(b) if p['l'] == l and c == 'read']


def r3_visited_on_representative(ctx, F):
    rule = 'C10-R3'
    for strat in ('DFS', 'SIM'):
        with ctx.rule(rule, strat):
            cb = CB(F, strat)
            b = cb.b
            ctx.touched(b)
            if cb.p_symmetry is None:
                raise AnchorMissing('%s: symmetry parameter' % b.path)
            reps = [c for c in b.indirect_calls()
                    if noref(b.val(c.fnptr)).kind == 'arg' and noref(b.val(c.fnptr)).key == cb.p_symmetry]
            if not reps:
                raise AnchorMissing('%s: call through the symmetry function' % b.path)
            for rc in reps:
                dl = rc.dest['l']
                uses = uses_of_local(b, dl)
                fps = [c for c in b.calls_to('fingerprint') if noref(b.val(c.args[0])) == V('call', rc.bb)]
                only_fp = len(fps) == 1 and all(bb == fps[0].bb or b.blocks[bb]['term']['k'] == 'drop' or True
                                                for (bb, p, c) in uses)
                # every read of the representative is the (re)borrow feeding fingerprint
                other = []
                for (bb, p, c) in uses:
                    ok_here = False
                    for f in fps:
                        if b.dominates(rc.bb, bb) and bb in (f.bb, rc.target):
                            ok_here = True
                    if not ok_here:
                        other.append(bb)
                ctx.check(len(fps) == 1 and not other, rule, 'representative-only-fingerprinted', b,
                          good='the representative state is used only to compute a fingerprint',
                          bad='%s: the canonicalised state is used beyond fingerprinting (blocks %s): '
                              'continuing with the representative jumps to another part of the state space' %
                              (strat, other), span=rc.span)
                if fps:
                    fp = fps[0]
                    # the key may be chosen by a `match symmetry { .. }`: on the path through the
                    # representative it must be the representative's fingerprint
                    from taint import origins
                    ins = []
                    for (c, n_, s_) in cb.arb:
                        org = origins(b, c.args[1])
                        if fp in org and all(not isinstance(o, (str, tuple)) and o.is_('fingerprint') and
                                             (o is fp or not b.dominates(rc.bb, o.bb)) for o in org):
                            ins.append(c)
                    ctx.check(len(ins) == 1, rule, 'visited-keyed-by-representative', b,
                              good='the visited set is keyed by the representative\'s fingerprint',
                              bad='%s: the representative\'s fingerprint does not key the visited-set insert' % strat,
                              span=fp.span)
                    # argument of the symmetry function is the successor / current state
                    av = noref(b.val(rc.args[0]))
                    wv = noref(b.val(cb.wb.args[1]))
                    if av != wv:
                        # the successor may have passed through `Option::filter(|s| within_boundary(s))`
                        from taint import origin_vals
                        avs = origin_vals(b, rc.args[0])
                        wvs = origin_vals(b, cb.wb.args[1])
                        if avs and avs == wvs and len(avs) == 1:
                            av = wv = next(iter(avs))
                    ctx.check(av == wv, rule, 'representative-of-current-state', b,
                              good='the representative is taken of the state that was boundary-checked',
                              bad='%s: symmetry is applied to %r, not to the state under consideration %r' %
                                  (strat, av, wv), span=rc.span)
            if strat == 'DFS':
                # the same where the initial states are registered: spawn() canonicalises them for the visited
                # set only; the jobs start from the initial states themselves
                from checkers import Spawn
                sp = Spawn(F, strat)
                nsb = F.norm(sp.b)
                ctx.touched(sp.b)
                sreps = [c for c in nsb.indirect_calls() if '.symmetry' in repr(noref(nsb.val(c.fnptr)))]
                if not sreps:
                    raise AnchorMissing('%s: call through the symmetry function' % sp.b.path)
                for rc in sreps:
                    fps = [c for c in nsb.calls_to('fingerprint')
                           if noref(nsb.val(c.args[0])) in (V('call', rc.bb), V('local', rc.dest['l']))]
                    other = [bb for (bb, p_, c_) in uses_of_local(nsb, rc.dest['l'])
                             if not (nsb.dominates(rc.bb, bb) and any(bb in (f.bb, rc.target) for f in fps))]
                    ctx.check(len(fps) == 1 and not other, rule, 'initial-representative-only-fingerprinted', sp.b,
                              good='the representative of an initial state is used only to compute a fingerprint',
                              bad='%s spawn: the canonicalised initial state is used beyond fingerprinting (blocks '
                                  '%s): the search starts from a state that need not be an initial state, and every '
                                  'path it reports begins there' % (strat, other), span=rc.span)
                # fingerprint appended to the path comes from the un-canonicalised successor
                from c01 import succ_value
                sv = succ_value(cb)
                enq = cb.enq[0]
                tv = b.val(enq.args[1])
                pathv = noref(tv.key[3][1]) if tv.kind == 'agg' and len(tv.key[3]) > 1 else None
                pushes = [c for c in b.calls_to('Vec::push') if pathv is not None and noref(b.val(c.args[0])) == pathv]
                # the child path may also be built in one expression: `[old.as_slice(), &[fp]].concat()`
                concat_ops = []
                pc = b.call_at(pathv.key) if pathv is not None and pathv.kind == 'call' and not pathv.fields() else None
                if pc is not None and pc.is_('slice::concat', 'slice::<impl [T]>::concat') and pc.args:
                    av = noref(b.val(pc.args[0]))
                    parts = av.key[3] if av.kind == 'agg' and av.key[0] == 'array' else ()
                    for part in parts:
                        part = noref(part)
                        if part.kind == 'agg' and part.key[0] == 'array':
                            concat_ops += list(part.key[3])      # `&[x, ..]`: the appended fingerprints
                        elif part.kind == 'call' and b.call_at(part.key) is not None and \
                                b.call_at(part.key).is_('Vec::as_slice', 'Deref::deref', 'AsRef::as_ref'):
                            pass                                  # the path so far
                        else:
                            concat_ops.append(None)
                elif pc is not None and pc.is_('Iterator::collect', 'FromIterator::from_iter') and pc.args:
                    # `old.iter().copied().chain(once(fp)).collect()`: the parts of the chain, in order
                    def chain_parts(v, depth=0):
                        v = noref(b.trace(noref(v), ('Iterator::copied', 'Iterator::cloned', 'IntoIterator::into_iter')))
                        cc_ = b.call_at(v.key) if v.kind == 'call' and not v.fields() else None
                        if cc_ is not None and cc_.is_('Iterator::chain') and len(cc_.args) == 2 and depth < 6:
                            return chain_parts(b.val(cc_.args[0]), depth + 1) + chain_parts(b.val(cc_.args[1]), depth + 1)
                        return [(v, cc_)]
                    for (pv_, cc_) in chain_parts(b.val(pc.args[0])):
                        if cc_ is not None and cc_.is_('iter::once', 'sources::once::once', 'option::Option::into_iter'):
                            concat_ops.append(b.val(cc_.args[0]))          # the appended fingerprint
                        elif cc_ is not None and cc_.is_('slice::iter', 'Vec::iter', 'Deref::deref'):
                            pass                                            # the path so far
                        elif pv_.kind == 'agg' and pv_.key[2] == 'Some' and pv_.key[3]:
                            concat_ops.append(pv_.key[3][0])
                        else:
                            concat_ops.append(None)
                from taint import origins_under
                nfp = 0
                bad_src = None
                sym_sws = [sw for sw in b.switches if sw.kind == 'variant' and noref(sw.on).kind == 'arg' and
                           noref(sw.on).key == cb.p_symmetry and not noref(sw.on).projs]
                from taint import origin_vals as _ov

                def of_successor(o):
                    return noref(b.val(o.args[0])) == sv or _ov(b, o.args[0]) == {sv}
                for c in [(c_, lab) for c_ in pushes for lab in ('Some', 'None')]:
                    c, lab = c
                    # `symmetry` does not change: judge the pushed fingerprint separately for the runs with
                    # and without a symmetry function (two matches on it cannot disagree)
                    live = b.reach_under([(sym_sws, lab)], [0]) if sym_sws else None
                    org = origins_under(b, c.args[1], live)
                    if org and all(not isinstance(o, (str, tuple)) and o.is_('fingerprint') and
                                   of_successor(o) for o in org):
                        nfp += 1          # the successor's own fingerprint
                    elif org and all(isinstance(o, tuple) and o[0] == 'proj' and o[1].is_('Iterator::next')
                                     for o in org):
                        pass              # copying the elements of the path so far
                    else:
                        bad_src = sorted(repr(o) for o in org)
                for cv in concat_ops:
                    cv = noref(cv) if cv is not None else None
                    fc = b.call_at(cv.key) if cv is not None and cv.kind == 'call' and not cv.fields() else None
                    if fc is None and cv is not None and cv.kind == 'local':
                        from taint import vals_of
                        vs = vals_of(b, cv)
                        fcs = [b.call_at(x.key) if x.kind == 'call' and not x.fields() else None for x in vs]
                        # chosen by `match symmetry`: every candidate must be the successor's own fingerprint
                        if fcs and all(f is not None and f.is_('fingerprint') and of_successor(f) for f in fcs):
                            nfp += 1
                            continue
                    if fc is not None and fc.is_('fingerprint') and of_successor(fc):
                        nfp += 1
                    else:
                        bad_src = [repr(cv)]
                ok = nfp >= 1 and bad_src is None
                ctx.check(ok, rule, 'path-continues-with-original', b,
                          good='the fingerprint appended to the path is that of the un-canonicalised successor',
                          bad='DFS: the fingerprint appended to the path is not fingerprint(successor) on every '
                              'definition (%r): the recorded path cannot be replayed' % (bad_src,))
                sp = Spawn(F, 'DFS')
                s = F.norm(sp.b)
                reps2 = [c for c in s.indirect_calls() if noref(s.val(c.fnptr)).fields()[-1:] == ('.symmetry',) or
                         'symmetry' in repr(s.val(c.fnptr))]
                ctx.check(len(reps2) >= 1, rule, 'initial-states-canonicalised', s,
                          good='initial visited entries use the representative when symmetry is enabled',
                          bad='DFS spawn: initial states are not canonicalised for the visited set')


def r4_rewrite_impls(ctx, F):
    rule = 'C10-R4'
    n = 0
    for im in F.impls_of('Rewrite'):
        t = im['self_tree']
        if t.get('k') != 'adt' or t['path'] not in F.adts:
            continue
        adt = F.adts[t['path']]
        body = None
        for it in im['provided']:
            if it['name'] == 'rewrite':
                body = F.bodies.get(it['path'])
        if body is None:
            continue
        n += 1
        ctx.touched(body)
        bounded = set()
        for w in im.get('where', []):
            m = re.match(r'^(\w+): checker::rewrite::Rewrite<', w)
            if m:
                bounded.add(m.group(1))
        # read in normal form (A12): `iter().map(|x| x.rewrite(plan)).collect()`, a `for` loop with push and a
        # local closure are the same thing; what is rewritten is found by following each rewrite call's
        # operand back to the field of `self` it was taken (or iterated) from
        from taint import origin_vals
        nb = F.norm(body)
        bodies = bodies_with_closures(F, nb)
        rewritten = set()   # (variant, field)

        def root_field(x, v, depth=0):
            v = noref(v)
            if depth > 12:
                return None
            if v.kind == 'arg':
                ob, ov = outer_val(F, x, v)
                if ov.kind == 'arg' and ov.key == 1:
                    var = None
                    for p_ in ov.projs:
                        if p_.startswith('as '):
                            var = p_[3:]
                        elif p_.startswith('.'):
                            return (var, p_[1:])
                    return (None, '*')   # the whole value is iterated / rewritten
                return None
            if v.kind == 'call':
                c_ = x.call_at(v.key)
                # views of the crate's own types count only when they enumerate everything
                # (Network::iter_deliverable shows the head of each ordered flow only)
                if c_ is not None and c_.local and not c_.decl.startswith(('std::', 'core::', 'alloc::')) and \
                        not c_.is_('Network::iter_all', 'DenseNatMap::iter',
                                                               'DenseNatMap::values', 'Timers::iter') and \
                        c_.decl != 'checker::rewrite::Rewrite::rewrite' and not c_.is_('RewritePlan::rewrite',
                                                                                       'RewritePlan::reindex'):
                    return None
                if c_ is not None and c_.is_('Iterator::take', 'Iterator::skip', 'Iterator::filter', 'Iterator::step_by',
                                              'Iterator::take_while', 'Iterator::skip_while', 'Iterator::nth'):
                    return None
                if c_ is not None and c_.args and c_.args[0].get('k') in ('copy', 'move'):
                    for v2 in origin_vals(x, c_.args[0]):
                        r_ = root_field(x, v2, depth + 1)
                        if r_ is not None:
                            return r_
            return None
        for x in bodies:
            for c in x.calls:
                if c.decl == 'checker::rewrite::Rewrite::rewrite' or c.is_('RewritePlan::rewrite', 'RewritePlan::reindex'):
                    for a_ in c.args[:2]:
                        if a_['k'] in ('copy', 'move'):
                            for v_ in origin_vals(x, a_):
                                rf = root_field(x, v_)
                                if rf is not None:
                                    rewritten.add(rf)
        for var in adt['variants']:
            for f in var['fields']:
                def pred(nd):
                    return (nd.get('k') == 'adt' and nd['path'] == 'actor::Id') or \
                           (nd.get('k') == 'param' and nd['name'] in bounded)
                from common import type_mentions
                if not type_mentions(f['tree'], pred, None, follow_local=False):
                    continue
                if f['tree'].get('k') == 'adt' and f['tree']['path'] == 'std::marker::PhantomData':
                    continue
                vname = var['name'] if adt['kind'] == 'Enum' else None
                ok = (vname, f['name']) in rewritten or (None, f['name']) in rewritten or (None, '*') in rewritten
                ctx.check(ok, rule, '%s%s.%s' % (t['path'], '::' + vname if vname else '', f['name']), body,
                          good='field `%s` (%s) is rewritten under the plan' % (f['name'], f['ty'][:40]),
                          bad='<%s as Rewrite>::rewrite does not rewrite field `%s%s` of type %s (it is copied or '
                              'cloned as is): process ids inside it keep their old values while the rest of '
                              'the state is permuted' % (t['path'], (vname + '::') if vname else '', f['name'], f['ty']))
        if adt['kind'] == 'Enum' and len(adt['variants']) > 1:
            # a rewrite renames process ids inside a value: an enum value keeps its variant. With self constrained
            # to one variant, every value of the type that is built (and can be returned) has that variant
            sws = [sw for sw in nb.switches if sw.kind == 'variant' and noref(sw.on).kind == 'arg' and
                   noref(sw.on).key == 1 and not noref(sw.on).fields()]
            if sws:
                for var in adt['variants']:
                    live = nb.reach_under([(sws, var['name'])], [0])
                    built = set(st['rv'].get('variant') for (i, si, st) in nb.assigns(
                        lambda st: st['rv']['k'] == 'agg' and st['rv'].get('adt') == t['path']) if i in live)
                    wrong = sorted(x for x in built if x != var['name'])
                    ctx.check(not wrong, rule, '%s::%s-keeps-its-variant' % (t['path'], var['name']), body,
                              good='a %s stays a %s under rewrite' % (var['name'], var['name']),
                              bad='<%s as Rewrite>::rewrite can turn a %s into %s: the rewritten value is not a renaming '
                                  'of the original, so a state and its "representative" are different states (and states '
                                  'that differ only in that variant share a representative)' %
                                  (t['path'], var['name'], wrong))
    if n < 7:
        raise AnchorMissing('expected >= 7 Rewrite impls on local types, found %d' % n)


def r5_densenatmap(ctx, F):
    r5_keyed_map(ctx, F, r'^<util::densenatmap::DenseNatMap<K, V> as checker::rewrite::Rewrite<\w+>>::rewrite$',
                 'DenseNatMap')


def r5_other_maps(ctx, F):
    """the std / util maps keyed by rewritable values: an entry's value stays with its (rewritten) key"""
    r5_keyed_map(ctx, F, r'^<std::collections::BTreeMap<K, V> as checker::rewrite::Rewrite<\w+>>::rewrite$', 'BTreeMap')
    r5_keyed_map(ctx, F, r'^<util::HashableHashMap<K, V> as checker::rewrite::Rewrite<\w+>>::rewrite$',
                 'HashableHashMap')


def r5_keyed_map(ctx, F, pattern, short):
    rule = 'C10-R5'
    b = F.one_body(pattern, '%s::rewrite' % short)
    ctx.touched(b)
    # normal form (A12): a `map(|(k, v)| (k.rewrite(plan), v.rewrite(plan))).collect()` chain, a `for` loop that
    # pushes the pairs and collects them afterwards, or a local closure are read alike
    from taint import origins
    nb = F.norm(b)
    rw = [c for c in nb.calls if c.decl == 'checker::rewrite::Rewrite::rewrite' or c.is_('RewritePlan::rewrite')]
    heads = [c for c in nb.calls_to('Iterator::next') if nb.in_cycle(c.bb)]

    def comp_of(c):
        """which component (0 = key, 1 = value) of the iterated (k, v) element the rewrite call works on"""
        for o in origins(nb, c.args[0]):
            if isinstance(o, tuple) and o[0] == 'proj' and o[1] in heads and o[2][:2] == ('Some', '0') and len(o[2]) >= 3:
                return o[2][2]
        return None
    ok = False
    for (i, si, st) in nb.assigns(lambda st: st['rv']['k'] == 'agg' and st['rv'].get('agg') == 'tuple' and
                                  len(st['rv']['ops']) == 2):
        o0, o1 = origins(nb, st['rv']['ops'][0]), origins(nb, st['rv']['ops'][1])
        if len(o0) == 1 and len(o1) == 1:
            c0, c1 = next(iter(o0)), next(iter(o1))
            if c0 in rw and c1 in rw and comp_of(c0) == '0' and comp_of(c1) == '1':
                ok = True
    ok = ok and bool(nb.calls_to('Iterator::collect', 'FromIterator::from_iter'))
    # ... and that is the only way a result is produced: a second construction (a shortcut that leaves the values
    # in place when a few probed keys did not move) bypasses the re-keying
    rdefs = [d for d in nb.defs.get(0, []) if d[1] == 'call' or not d[2]['lhs']['p']]
    only = bool(rdefs) and all(d[1] == 'call' and nb.call_at(d[0]).is_('Iterator::collect', 'FromIterator::from_iter')
                               for d in rdefs) and len(rdefs) == 1
    if not only:
        # the result may be handed through a temporary
        from taint import origin_calls
        oc = set()
        for d in rdefs:
            if d[1] == 'call':
                oc.add(nb.call_at(d[0]))
            elif d[2]['rv']['k'] == 'use':
                oc |= origin_calls(nb, d[2]['rv']['op'])
            else:
                oc.add('other')
        only = len(oc) == 1 and all(o != 'other' and o.is_('Iterator::collect', 'FromIterator::from_iter') for o in oc)
    ctx.check(only, rule, 'rekeyed-collect-is-the-only-result@%s' % short, b,
              good='every result of %s::rewrite comes out of the pair collector' % short,
              bad='%s::rewrite has a path that builds its result without collecting (rewritten key, rewritten '
                  'value) pairs: on that path values keep their old positions although the plan may move their keys' % short)
    ctx.check(ok, rule, 'rekeyed-collect@%s' % short, b,
              good='%s::rewrite maps each (k, v) of one entry to (rewritten k, rewritten v) and collects the pairs' % short,
              bad='%s::rewrite does not collect (rewritten key, rewritten value) pairs built from one and the same '
                  'entry: values end up under other keys than their own' % short)


def run(ctx):
    F = ctx.facts
    ctx.doc('C10-R1', 'representative(): every field from self.<field> under one plan; actor-indexed vectors via '
                      'reindex, others via rewrite; plan = sort of actor_states')
    ctx.doc('C10-R2', 'from_values_to_sort and reindex use stable sorts only')
    ctx.doc('C10-R3', 'the symmetry function\'s result flows only into fingerprint -> visited-set insert; path '
                      'fingerprints and enqueued states come from the original successor')
    ctx.doc('C10-R4', 'every Rewrite impl on a local type rewrites each field mentioning Id or a Rewrite-bounded '
                      'parameter')
    ctx.doc('C10-R5', 'DenseNatMap::rewrite collects (rewritten key, rewritten value) pairs')
    with ctx.rule('C10-R1', 'representative'):
        r1_representative(ctx, F)
    with ctx.rule('C10-R2', 'rewrite_plan'):
        r2_stable_sorts(ctx, F)
    r3_visited_on_representative(ctx, F)
    with ctx.rule('C10-R4', 'rewrite impls'):
        r4_rewrite_impls(ctx, F)
    with ctx.rule('C10-R5', 'densenatmap'):
        r5_densenatmap(ctx, F)
        r5_other_maps(ctx, F)
