"""Closure normalisation (analysis A12).

`for x in it { body }` and `it.for_each(|x| body)` are the same program, and so are
`if let Some(t) = o { t >= d } else { false }` and `o.map_or(false, |t| t >= d)`. rustc lowers the
first of each pair to one control-flow graph and the second to a call of a std higher-order
function plus a separate closure body, which hides the control flow from path rules.

This pass rewrites, on the JSON facts, calls of a fixed table of std combinators whose closure
argument is a closure of this crate into the explicit loop / branch, with the closure body spliced
in (captured variables substituted by the captured places). Lazy adaptors (`filter`, `map`, ...)
are expanded at the point where the adaptor is pulled: a `for` loop's `Iterator::next`, one of the
consuming combinators, or - for any other consumer such as `collect` - a materialising loop placed
in front of the consumer that hands every produced element to the synthetic call
`desugar::yield(&mut iterator, element)`.

Only removes indirection; every spliced block is the closure's own MIR.
"""
from mir import short, name_matches

OPTION_VARIANTS = [[0, 'None'], [1, 'Some']]
RESULT_VARIANTS = [[0, 'Ok'], [1, 'Err']]

ITER_CONSUMERS = ('Iterator::for_each', 'Iterator::any', 'Iterator::all', 'Iterator::find',
                  'Iterator::find_map')
ITER_ADAPTORS = ('Iterator::filter', 'Iterator::map', 'Iterator::filter_map', 'Iterator::inspect',
                 'Iterator::map_while')
VALUE_COMBINATORS = ('Option::map', 'Option::map_or', 'Option::map_or_else', 'Option::and_then',
                     'Option::is_some_and', 'Option::is_none_or', 'Option::unwrap_or_else', 'Option::filter',
                     'Option::or_else', 'Option::ok_or_else', 'Option::get_or_insert_with', 'bool::then',
                     'Result::map', 'Result::map_err', 'Result::and_then', 'Result::unwrap_or_else',
                     'Result::is_ok_and', 'Result::is_err_and', 'Result::map_or')
DIRECT_CALLS = ('Fn::call', 'FnMut::call_mut', 'FnOnce::call_once')
SCOPED = ('LocalKey::with',)
PASS_THROUGH = ('IntoIterator::into_iter',)


def _is(callee, pats):
    s = short(callee)
    for p in pats:
        if name_matches(s, p):
            return p
    return None


def map_places(x, fn):
    """apply fn(place) -> place to every place of a JSON fragment"""
    if isinstance(x, dict):
        if 'l' in x and 'p' in x and isinstance(x.get('p'), list):
            return fn(x)
        return dict((k, map_places(v, fn)) for k, v in x.items())
    if isinstance(x, list):
        return [map_places(v, fn) for v in x]
    return x


class _B:
    """mutable copy of one body's JSON"""

    def __init__(self, j):
        self.j = j
        self.blocks = [dict(b) for b in j['blocks']]
        self.locals = list(j['locals'])
        self.promoted = list(j.get('promoted', []))
        self.debug = list(j.get('debug', []))
        self.expanded = []
        self._defs = None

    # -- construction helpers --
    def local(self, ty):
        self.locals.append({'ty': ty, 'head': '', 'tree': {'k': 'synthetic'}})
        return len(self.locals) - 1

    def reserve(self):
        self.blocks.append({'cleanup': False, 'stmts': [], 'term': {'k': 'unreachable', 'span': '', 'exp': True}})
        self._defs = None
        return len(self.blocks) - 1

    def fill(self, bb, stmts, term):
        self.blocks[bb] = {'cleanup': False, 'stmts': stmts, 'term': term}
        self._defs = None

    def block(self, stmts, term):
        bb = self.reserve()
        self.fill(bb, stmts, term)
        return bb

    # -- single-definition lookup on the JSON --
    def defs(self):
        if self._defs is None:
            d = {}
            for i, b in enumerate(self.blocks):
                if b['cleanup']:
                    continue
                for st in b['stmts']:
                    if st['k'] == 'assign' and not st['lhs']['p']:
                        d.setdefault(st['lhs']['l'], []).append(('stmt', i, st))
                t = b['term']
                if t['k'] == 'call' and not t['dest']['p']:
                    d.setdefault(t['dest']['l'], []).append(('call', i, t))
            self._defs = d
        return self._defs

    def one_def(self, l):
        ds = self.defs().get(l, [])
        return ds[0] if len(ds) == 1 else None


def P(l, *proj):
    return {'l': l, 'p': list(proj)}


def mv(l, *proj):
    return {'k': 'move', 'place': P(l, *proj)}


def cp(l, *proj):
    return {'k': 'copy', 'place': P(l, *proj)}


def const(ty, val, dbg):
    return {'k': 'const', 'ty': ty, 'val': val, 'dbg': dbg}


def unit():
    return {'k': 'const', 'ty': '()', 'dbg': '()'}


def assign(l, rv, span, exp=True):
    return {'k': 'assign', 'lhs': P(l), 'rv': rv, 'span': span, 'exp': exp}


def assign_place(place, rv, span, exp=True):
    return {'k': 'assign', 'lhs': place, 'rv': rv, 'span': span, 'exp': exp}


def use(op):
    return {'k': 'use', 'op': op}


def ref(l, mut=True):
    return {'k': 'ref', 'mut': mut, 'place': P(l)}


def agg_variant(adt, variant, ops):
    return {'k': 'agg', 'agg': 'adt', 'adt': adt, 'variant': variant,
            'fields': [str(i) for i in range(len(ops))], 'ops': ops}


def goto(t, span):
    return {'k': 'goto', 'target': t, 'span': span, 'exp': True}


def downcast(variant, vidx, adt, ty=''):
    return [{'downcast': variant, 'vidx': vidx}, {'f': 0, 'name': '0', 'base': adt, 'ty': ty}]


OPT = 'std::option::Option'
RES = 'std::result::Result'


class Desugarer:
    def __init__(self, raw, should_expand, adts=()):
        self.raw = raw
        self.should_expand = should_expand
        self.adts = dict(adts) if isinstance(adts, dict) else dict((a, ()) for a in adts)

    # ------------------------------------------------------------------
    def closure_of(self, B, op, depth=0):
        """(closure path, upvar operands, local holding the closure) for an operand, following moves
        and references; None when the operand is not (provably) one closure of this crate."""
        if op.get('k') == 'const' and ('fn' in op or 'fn_resolved' in op):
            # a function item used as the callable (`.map(helper)`): only local, non-generic-dispatch ones
            path = op.get('fn_resolved') or op.get('fn')
            if path in self.raw and self.raw[path]['kind'] != 'Closure':
                return (path, [], None)
            if path:
                # a function of another crate (`.and_then(VecDeque::pop_front)`): becomes a plain call
                return ('extern:' + path, [], None)
            return None
        if depth > 6 or op.get('k') not in ('move', 'copy') or op['place']['p']:
            return None
        l = op['place']['l']
        d = B.one_def(l)
        if d is None or d[0] != 'stmt':
            return None
        rv = d[2]['rv']
        if rv['k'] == 'agg' and rv.get('agg') == 'closure' and rv.get('closure') in self.raw:
            return (rv['closure'], rv['ops'], l)
        if rv['k'] == 'use':
            return self.closure_of(B, rv['op'], depth + 1)
        if rv['k'] == 'ref' and not rv['place']['p']:
            return self.closure_of(B, cp(rv['place']['l']), depth + 1)
        if rv['k'] == 'ref' and rv['place']['p'] == ['deref']:
            return self.closure_of(B, cp(rv['place']['l']), depth + 1)
        return None

    def splice(self, B, clos, args, dest_place, target, span):
        """Splice the closure body; returns the entry block. args: operands for the closure's
        parameters; dest_place receives the result; control continues at `target`."""
        cpath, upvars, _cl = clos[:3]
        env_place = clos[3] if len(clos) > 3 else None
        if cpath.startswith('extern:'):
            fn = cpath[len('extern:'):]
            B.expanded.append(cpath)
            # a tuple-variant / tuple-struct constructor used as a function (`.map(Choice::L)`) builds the value
            sp_ = short(fn)
            adt, _, var = sp_.rpartition('::')
            adts = getattr(self, 'adts', {})
            if var[:1].isupper():
                cands = [a for a, vs in adts.items() if var in vs and (a == adt or a.rpartition('::')[0] == adt)]
                if len(cands) == 1:
                    return B.block([assign_place(dest_place, agg_variant(cands[0], var, list(args)), span)],
                                   goto(target, span))
            return B.block([], {'k': 'call', 'decl': fn, 'full': fn, 'callee': fn, 'local': False, 'targs': [],
                                'args': list(args), 'dest': dest_place, 'target': target, 'unwind': 'continue',
                                'span': span, 'exp': False, 'synthetic': True})
        if self.raw[cpath]['kind'] != 'Closure' and getattr(self, 'plain_call', None) is not None and self.plain_call(cpath):
            # a function item of this crate that the reference tree already has (`.map(fingerprint)`): the element
            # is the result of a plain call of it - the call stays visible as the anchor the rules look for
            B.expanded.append('fn:' + cpath)
            return B.block([], {'k': 'call', 'decl': cpath, 'full': cpath, 'callee': cpath, 'local': True, 'targs': [],
                                'args': list(args), 'dest': dest_place, 'target': target, 'unwind': 'continue',
                                'span': span, 'exp': False, 'synthetic': True})
        g = self.raw[cpath]
        loff, boff, poff = len(B.locals), len(B.blocks), len(B.promoted)
        B.locals += g['locals']
        B.promoted += g.get('promoted', [])
        is_fn = g['kind'] != 'Closure'
        env = -1 if is_fn else loff + 1

        def subst(place):
            l = place['l'] + loff
            p = []
            for e in place['p']:
                if isinstance(e, dict) and 'index' in e:
                    e = dict(e, index=e['index'] + loff)
                p.append(e)
            if l == env:
                q = list(p)
                if q and q[0] == 'deref':
                    q = q[1:]
                if env_place is not None:
                    # the closure value lives in a place of the host (a captured closure): its captures are
                    # fields of that place
                    return {'l': env_place['l'], 'p': list(env_place['p']) + q}
                if q and isinstance(q[0], dict) and 'f' in q[0] and q[0]['f'] < len(upvars) and \
                        upvars[q[0]['f']].get('k') in ('move', 'copy'):
                    up = upvars[q[0]['f']]['place']
                    return {'l': up['l'], 'p': list(up['p']) + q[1:]}
            return dict(place, l=l, p=p)

        def fixp(x):
            if isinstance(x, dict):
                if x.get('k') == 'const' and 'promoted' in x:
                    return dict(x, promoted=x['promoted'] + poff)
                return dict((k, fixp(v)) for k, v in x.items())
            if isinstance(x, list):
                return [fixp(v) for v in x]
            return x
        for gb in g['blocks']:
            nb = fixp(map_places({'stmts': gb['stmts'], 'term': gb['term']}, subst))
            nb['cleanup'] = gb['cleanup']
            tt = dict(nb['term'])
            k = tt['k']
            if k in ('goto', 'drop', 'assert'):
                tt['target'] += boff
            if k == 'call' and tt.get('target') is not None:
                tt['target'] += boff
            if k == 'switch':
                tt['targets'] = [[v, tb + boff] for v, tb in tt['targets']]
                tt['otherwise'] += boff
            if isinstance(tt.get('unwind'), int):
                tt['unwind'] += boff
            if k == 'return':
                nb['stmts'] = nb['stmts'] + [assign_place(dest_place, use(mv(loff)), span)]
                tt = goto(target, span)
            nb['term'] = tt
            B.blocks.append(nb)
        for d in g.get('debug', []):
            if is_fn or d['place']['l'] != 1:
                B.debug.append(dict(d, place=dict(d['place'], l=d['place']['l'] + loff)))
        binds = [assign(loff + (1 if is_fn else 2) + i, use(a), span) for i, a in enumerate(args)]
        B._defs = None
        B.expanded.append(cpath)
        return B.block(binds, goto(boff, span))

    def param_ty(self, clos, i):
        if clos[0].startswith('extern:'):
            return ''
        g = self.raw[clos[0]]
        idx = (1 if g['kind'] != 'Closure' else 2) + i
        return g['locals'][idx]['ty'] if idx < len(g['locals']) and idx <= g['arg_count'] else ''

    def ret_ty(self, clos):
        if clos[0].startswith('extern:'):
            return '_'
        return self.raw[clos[0]]['locals'][0]['ty']

    # ------------------------------------------------------------------
    def find_adaptor(self, B, l, depth=0):
        """The expandable adaptor call that produced iterator local l (through moves/into_iter)."""
        if depth > 8:
            return None
        d = B.one_def(l)
        if d is None:
            return None
        if d[0] == 'stmt':
            rv = d[2]['rv']
            if rv['k'] == 'use' and rv['op'].get('k') in ('move', 'copy') and not rv['op']['place']['p']:
                return self.find_adaptor(B, rv['op']['place']['l'], depth + 1)
            return None
        bi, t = d[1], d[2]
        if _is(t.get('callee', ''), PASS_THROUGH) and t['args'] and t['args'][0].get('k') in ('move', 'copy') \
                and not t['args'][0]['place']['p']:
            return self.find_adaptor(B, t['args'][0]['place']['l'], depth + 1)
        kind = _is(t.get('callee', ''), ITER_ADAPTORS)
        if kind and len(t['args']) == 2 and t['target'] is not None:
            clos = self.closure_of(B, t['args'][1])
            if clos and self.should_expand(clos[0], kind, B.j):
                return (bi, t, kind, clos)
        return None

    def gen_next(self, B, handle, after, span):
        """Emit blocks that pull one element from the iterator `handle` = (local, is_ref); the
        Option result is left in the returned local and control continues at `after`.
        Returns (entry block, result local)."""
        l, is_ref = handle
        ad = None if is_ref else self.find_adaptor(B, l)
        if ad is None:
            n = B.local('std::option::Option<_>')
            stmts = []
            if is_ref:
                arg = cp(l)
            else:
                r = B.local('&mut _')
                stmts.append(assign(r, ref(l, True), span))
                arg = mv(r)
            hty = B.locals[l]['ty']
            while hty.startswith('&'):
                hty = hty[1:].lstrip()
                if hty.startswith('mut '):
                    hty = hty[4:]
            term = {'k': 'call', 'decl': 'std::iter::Iterator::next', 'full': 'std::iter::Iterator::next',
                    'callee': 'std::iter::Iterator::next', 'local': False, 'targs': [hty], 'trait': 'std::iter::Iterator',
                    'args': [arg], 'dest': P(n), 'target': after, 'unwind': 'continue', 'span': span, 'exp': True,
                    'synthetic': True}
            return B.block(stmts, term), n
        bi, t, kind, clos = ad
        # neutralise the adaptor call: the adaptor value is the underlying iterator
        B.blocks[bi] = dict(B.blocks[bi], stmts=B.blocks[bi]['stmts'] + [
            assign_place(t['dest'], use(t['args'][0]), t['span'])], term=goto(t['target'], t['span']))
        B._defs = None
        mid = B.reserve()
        entry, n_in = self.gen_next(B, handle, mid, span)
        n_out = B.local('std::option::Option<_>')
        none_bb = B.block([assign(n_out, agg_variant(OPT, 'None', []), span)], goto(after, span))
        x = B.local(self.param_ty(clos, 0) if kind in ('Iterator::map', 'Iterator::filter_map',
                                                       'Iterator::map_while') else '_')
        get_x = assign(x, use(mv(n_in, *downcast('Some', 1, OPT))), span)
        if kind in ('Iterator::filter', 'Iterator::inspect'):
            xr = B.local('&_')
            r = B.local(self.ret_ty(clos))
            yes = B.block([assign(n_out, agg_variant(OPT, 'Some', [mv(x)]), span)], goto(after, span))
            if kind == 'Iterator::filter':
                test = B.block([], {'k': 'switch', 'discr': cp(r), 'targets': [[0, entry]], 'otherwise': yes,
                                    'span': span, 'exp': True})
            else:
                test = yes
            call = self.splice(B, clos, [mv(xr)], P(r), test, span)
            some_bb = B.block([get_x, assign(xr, ref(x, False), span)], goto(call, span))
        elif kind == 'Iterator::map':
            y = B.local(self.ret_ty(clos))
            yes = B.block([assign(n_out, agg_variant(OPT, 'Some', [mv(y)]), span)], goto(after, span))
            call = self.splice(B, clos, [mv(x)], P(y), yes, span)
            some_bb = B.block([get_x], goto(call, span))
        else:  # filter_map
            r = B.local(self.ret_ty(clos))
            d = B.local('isize')
            unreachable = B.block([], {'k': 'unreachable', 'span': span, 'exp': True})
            yes = B.block([assign(n_out, agg_variant(OPT, 'Some', [mv(r, *downcast('Some', 1, OPT))]), span)],
                          goto(after, span))
            test = B.block([assign(d, {'k': 'discr', 'place': P(r), 'adt': OPT, 'variants': OPTION_VARIANTS}, span)],
                           {'k': 'switch', 'discr': mv(d),
                            # (map_while: the first None ends the walk; filter_map: it skips the element)
                            'targets': [[0, none_bb if kind == 'Iterator::map_while' else entry], [1, yes]],
                            'otherwise': unreachable, 'span': span, 'exp': True})
            call = self.splice(B, clos, [mv(x)], P(r), test, span)
            some_bb = B.block([get_x], goto(call, span))
        d0 = B.local('isize')
        unreachable = B.block([], {'k': 'unreachable', 'span': span, 'exp': True})
        B.fill(mid, [assign(d0, {'k': 'discr', 'place': P(n_in), 'adt': OPT, 'variants': OPTION_VARIANTS}, span)],
               {'k': 'switch', 'discr': mv(d0), 'targets': [[0, none_bb], [1, some_bb]],
                'otherwise': unreachable, 'span': span, 'exp': True})
        return entry, n_out

    def iter_handle(self, B, op):
        """(local, is_ref) for the iterator operand of a consumer"""
        if op.get('k') not in ('move', 'copy') or op['place']['p']:
            return None
        l = op['place']['l']
        ty = B.locals[l]['ty']
        if ty.startswith('&'):
            # `&mut it`: find `it`
            d = B.one_def(l)
            seen = 0
            while d is not None and d[0] == 'stmt' and seen < 6:
                rv = d[2]['rv']
                if rv['k'] == 'ref' and not rv['place']['p']:
                    return (rv['place']['l'], False)
                if rv['k'] == 'ref' and rv['place']['p'] == ['deref']:
                    d = B.one_def(rv['place']['l'])
                elif rv['k'] == 'use' and rv['op'].get('k') in ('move', 'copy') and not rv['op']['place']['p']:
                    d = B.one_def(rv['op']['place']['l'])
                else:
                    break
                seen += 1
            return (l, True)
        return (l, False)

    def discr_switch(self, B, l, adt, variants, targets, span):
        d = B.local('isize')
        unreachable = B.block([], {'k': 'unreachable', 'span': span, 'exp': True})
        return ([assign(d, {'k': 'discr', 'place': P(l), 'adt': adt, 'variants': variants}, span)],
                {'k': 'switch', 'discr': mv(d), 'targets': targets, 'otherwise': unreachable,
                 'span': span, 'exp': True})

    # ------------------------------------------------------------------
    def expand_consumer(self, B, bi, t, kind, clos):
        span = t['span']
        handle = self.iter_handle(B, t['args'][0])
        if handle is None or t['target'] is None:
            return False
        after = B.reserve()
        entry, n = self.gen_next(B, handle, after, span)
        x = B.local(self.param_ty(clos, 1 if kind == 'Iterator::fold' else 0) or '_')
        get_x = assign(x, use(mv(n, *downcast('Some', 1, OPT))), span)
        dest, target = t['dest'], t['target']
        if kind == 'Iterator::fold':
            acc = B.local(self.param_ty(clos, 0) or '_')
            nxt = B.local(self.param_ty(clos, 0) or '_')
            step = B.block([assign(acc, use(mv(nxt)), span)], goto(entry, span))
            call = self.splice(B, clos, [mv(acc), mv(x)], P(nxt), step, span)
            some_bb = B.block([get_x], goto(call, span))
            exit_bb = B.block([assign_place(dest, use(mv(acc)), span)], goto(target, span))
            B.blocks[bi] = dict(B.blocks[bi], stmts=B.blocks[bi]['stmts'] + [assign(acc, use(t['args'][1]), span)])
        elif kind == 'Iterator::for_each':
            tmp = B.local('()')
            call = self.splice(B, clos, [mv(x)], P(tmp), entry, span)
            some_bb = B.block([get_x], goto(call, span))
            exit_bb = B.block([assign_place(dest, use(unit()), span)], goto(target, span))
        elif kind in ('Iterator::any', 'Iterator::all'):
            r = B.local('bool')
            hit = kind == 'Iterator::any'
            found = B.block([assign_place(dest, use(const('bool', 1 if hit else 0, 'true' if hit else 'false')), span)],
                            goto(target, span))
            test = B.block([], {'k': 'switch', 'discr': cp(r),
                                'targets': [[0, entry if hit else found]], 'otherwise': found if hit else entry,
                                'span': span, 'exp': True})
            call = self.splice(B, clos, [mv(x)], P(r), test, span)
            some_bb = B.block([get_x], goto(call, span))
            exit_bb = B.block([assign_place(dest, use(const('bool', 0 if hit else 1, 'false' if hit else 'true')), span)],
                              goto(target, span))
        elif kind == 'Iterator::find':
            r = B.local('bool')
            xr = B.local('&_')
            found = B.block([assign_place(dest, agg_variant(OPT, 'Some', [mv(x)]), span)], goto(target, span))
            test = B.block([], {'k': 'switch', 'discr': cp(r), 'targets': [[0, entry]], 'otherwise': found,
                                'span': span, 'exp': True})
            call = self.splice(B, clos, [mv(xr)], P(r), test, span)
            some_bb = B.block([get_x, assign(xr, ref(x, False), span)], goto(call, span))
            exit_bb = B.block([assign_place(dest, agg_variant(OPT, 'None', []), span)], goto(target, span))
        else:  # find_map
            r = B.local(self.ret_ty(clos))
            found = B.block([assign_place(dest, agg_variant(OPT, 'Some', [mv(r, *downcast('Some', 1, OPT))]), span)],
                            goto(target, span))
            st, sw = self.discr_switch(B, r, OPT, OPTION_VARIANTS, [[0, entry], [1, found]], span)
            test = B.block(st, sw)
            call = self.splice(B, clos, [mv(x)], P(r), test, span)
            some_bb = B.block([get_x], goto(call, span))
            exit_bb = B.block([assign_place(dest, agg_variant(OPT, 'None', []), span)], goto(target, span))
        st, sw = self.discr_switch(B, n, OPT, OPTION_VARIANTS, [[0, exit_bb], [1, some_bb]], span)
        B.fill(after, st, sw)
        B.blocks[bi] = dict(B.blocks[bi], term=goto(entry, span))
        B._defs = None
        return True

    def expand_value(self, B, bi, t, kind, closes):
        """Option / Result / bool combinators. closes: {arg index: closure}"""
        span = t['span']
        dest, target = t['dest'], t['target']
        if target is None:
            return False
        a = t['args']
        recv = B.local('bool' if kind == 'bool::then' else '_')
        pre = [assign(recv, use(a[0]), span)]

        def call(ai, args, dplace, tgt):
            """invoke argument ai (closure -> spliced, otherwise an opaque FnOnce call)"""
            if ai in closes:
                return self.splice(B, closes[ai], args, dplace, tgt, span)
            tup = B.local('(_)')
            return B.block([assign(tup, {'k': 'agg', 'agg': 'tuple', 'ops': args}, span)],
                           {'k': 'call', 'decl': 'std::ops::FnOnce::call_once', 'full': 'std::ops::FnOnce::call_once',
                            'callee': 'std::ops::FnOnce::call_once', 'local': False, 'targs': [], 'trait': 'std::ops::FnOnce',
                            'args': [a[ai], mv(tup)], 'dest': dplace, 'target': tgt, 'unwind': 'continue',
                            'span': span, 'exp': True, 'synthetic': True})

        def ret(rv):
            return B.block([assign_place(dest, rv, span)], goto(target, span))

        def cbool(v):
            return use(const('bool', 1 if v else 0, 'true' if v else 'false'))
        if kind == 'bool::then':
            y = B.local('_')
            some = ret(agg_variant(OPT, 'Some', [mv(y)]))
            yes = call(1, [], P(y), some)
            no = ret(agg_variant(OPT, 'None', []))
            B.blocks[bi] = dict(B.blocks[bi], stmts=B.blocks[bi]['stmts'] + pre,
                                term={'k': 'switch', 'discr': cp(recv), 'targets': [[0, no]], 'otherwise': yes,
                                      'span': span, 'exp': True})
            B._defs = None
            return True
        if kind == 'Option::get_or_insert_with':
            # opt.get_or_insert_with(f): `match *opt { Some(ref mut x) => x, None => { *opt = Some(f()); <the new x> } }`
            # (the receiver is a `&mut Option<T>`)
            fresh = B.local('_')
            have = B.block([{'k': 'assign', 'lhs': dict(dest), 'rv': {'k': 'ref', 'mut': True, 'place': P(
                recv, 'deref', *downcast('Some', 1, OPT))}, 'span': span, 'exp': True}], goto(target, span))
            store = B.block([assign_place(P(recv, 'deref'), agg_variant(OPT, 'Some', [mv(fresh)]), span),
                             {'k': 'assign', 'lhs': dict(dest), 'rv': {'k': 'ref', 'mut': True, 'place': P(
                                 recv, 'deref', *downcast('Some', 1, OPT))}, 'span': span, 'exp': True}],
                            goto(target, span))
            none = call(1, [], P(fresh), store)
            d = B.local('isize')
            unreachable = B.block([], {'k': 'unreachable', 'span': span, 'exp': True})
            st = [assign(d, {'k': 'discr', 'place': P(recv, 'deref'), 'adt': OPT, 'variants': OPTION_VARIANTS}, span)]
            sw = {'k': 'switch', 'discr': mv(d), 'targets': [[1, have], [0, none]], 'otherwise': unreachable,
                  'span': span, 'exp': True}
            B.blocks[bi] = dict(B.blocks[bi], stmts=B.blocks[bi]['stmts'] + pre + st, term=sw)
            B._defs = None
            return True
        is_opt = kind.startswith('Option::')
        adt, variants = (OPT, OPTION_VARIANTS) if is_opt else (RES, RESULT_VARIANTS)
        x = B.local('_')
        if is_opt:
            get_x = assign(x, use(mv(recv, *downcast('Some', 1, OPT))), span)
            pos_idx, neg_idx = 1, 0
        else:
            get_x = assign(x, use(mv(recv, *downcast('Ok', 0, RES))), span)
            pos_idx, neg_idx = 0, 1
        e = B.local('_')
        get_e = assign(e, use(mv(recv, *downcast('Err', 1, RES))), span)
        y = B.local('_')
        m = kind.split('::')[1]
        pos = neg = None
        if kind == 'Option::map':
            pos = B.block([get_x], goto(call(1, [mv(x)], P(y), ret(agg_variant(OPT, 'Some', [mv(y)]))), span))
            neg = ret(agg_variant(OPT, 'None', []))
        elif kind == 'Option::map_or':
            pos = B.block([get_x], goto(call(2, [mv(x)], dest, target), span))
            neg = ret(use(a[1]))
        elif kind == 'Option::map_or_else':
            pos = B.block([get_x], goto(call(2, [mv(x)], dest, target), span))
            neg = call(1, [], dest, target)
        elif kind == 'Option::and_then':
            pos = B.block([get_x], goto(call(1, [mv(x)], dest, target), span))
            neg = ret(agg_variant(OPT, 'None', []))
        elif kind == 'Option::is_some_and':
            pos = B.block([get_x], goto(call(1, [mv(x)], dest, target), span))
            neg = ret(cbool(False))
        elif kind == 'Option::is_none_or':
            pos = B.block([get_x], goto(call(1, [mv(x)], dest, target), span))
            neg = ret(cbool(True))
        elif kind == 'Option::unwrap_or_else':
            pos = B.block([get_x], goto(ret(use(mv(x))), span))
            neg = call(1, [], dest, target)
        elif kind == 'Option::filter':
            r = B.local('bool')
            xr = B.local('&_')
            keep = ret(agg_variant(OPT, 'Some', [mv(x)]))
            dropb = ret(agg_variant(OPT, 'None', []))
            test = B.block([], {'k': 'switch', 'discr': cp(r), 'targets': [[0, dropb]], 'otherwise': keep,
                                'span': span, 'exp': True})
            pos = B.block([get_x, assign(xr, ref(x, False), span)], goto(call(1, [mv(xr)], P(r), test), span))
            neg = ret(agg_variant(OPT, 'None', []))
        elif kind == 'Option::or_else':
            pos = B.block([get_x], goto(ret(agg_variant(OPT, 'Some', [mv(x)])), span))
            neg = call(1, [], dest, target)
        elif kind == 'Option::ok_or_else':
            pos = B.block([get_x], goto(ret(agg_variant(RES, 'Ok', [mv(x)])), span))
            neg = call(1, [], P(y), ret(agg_variant(RES, 'Err', [mv(y)])))
        elif kind == 'Result::map':
            pos = B.block([get_x], goto(call(1, [mv(x)], P(y), ret(agg_variant(RES, 'Ok', [mv(y)]))), span))
            neg = B.block([get_e], goto(ret(agg_variant(RES, 'Err', [mv(e)])), span))
        elif kind == 'Result::map_err':
            pos = B.block([get_x], goto(ret(agg_variant(RES, 'Ok', [mv(x)])), span))
            neg = B.block([get_e], goto(call(1, [mv(e)], P(y), ret(agg_variant(RES, 'Err', [mv(y)]))), span))
        elif kind == 'Result::and_then':
            pos = B.block([get_x], goto(call(1, [mv(x)], dest, target), span))
            neg = B.block([get_e], goto(ret(agg_variant(RES, 'Err', [mv(e)])), span))
        elif kind == 'Result::unwrap_or_else':
            pos = B.block([get_x], goto(ret(use(mv(x))), span))
            neg = B.block([get_e], goto(call(1, [mv(e)], dest, target), span))
        elif kind == 'Result::is_ok_and':
            pos = B.block([get_x], goto(call(1, [mv(x)], dest, target), span))
            neg = ret(cbool(False))
        elif kind == 'Result::is_err_and':
            pos = ret(cbool(False))
            neg = B.block([get_e], goto(call(1, [mv(e)], dest, target), span))
        elif kind == 'Result::map_or':
            pos = B.block([get_x], goto(call(2, [mv(x)], dest, target), span))
            neg = ret(use(a[1]))
        else:
            return False
        st, sw = self.discr_switch(B, recv, adt, variants, [[pos_idx, pos], [neg_idx, neg]], span)
        B.blocks[bi] = dict(B.blocks[bi], stmts=B.blocks[bi]['stmts'] + pre + st, term=sw)
        B._defs = None
        return True

    def expand_direct(self, B, bi, t, clos):
        """`f(a, b)` on a local closure: Fn::call(&f, (a, b))"""
        span = t['span']
        if t['target'] is None or len(t['args']) != 2:
            return False
        if clos[0].startswith('extern:'):
            return False
        g = self.raw[clos[0]]
        n = g['arg_count'] - 1
        tup = t['args'][1]
        if tup.get('k') not in ('move', 'copy'):
            if n != 0:
                return False
            args = []
        else:
            args = [dict(tup, place=dict(tup['place'], p=list(tup['place']['p']) + [
                {'f': i, 'name': str(i), 'base': '', 'ty': ''}])) for i in range(n)]
        entry = self.splice(B, clos, args, t['dest'], t['target'], span)
        B.blocks[bi] = dict(B.blocks[bi], term=goto(entry, span))
        B._defs = None
        return True

    def materialise(self, B, bi, t, ai, l):
        """an opaque consumer (collect, extend, sum, ...) of a lazy adaptor chain: run the chain in a
        loop placed in front of the consumer"""
        span = t['span']
        after = B.reserve()
        entry, n = self.gen_next(B, (l, False), after, span)
        y = B.local('_')
        out = B.local(B.locals[l]['ty'])
        r = B.local('&mut _')
        tmp = B.local('()')
        args = list(t['args'])
        args[ai] = mv(out)
        callbb = B.block([], dict(t, args=args))
        some_bb = B.block([assign(y, use(mv(n, *downcast('Some', 1, OPT))), span), assign(r, ref(out, True), span)],
                          {'k': 'call', 'decl': 'desugar::yield', 'full': 'desugar::yield', 'callee': 'desugar::yield',
                           'local': False, 'targs': [], 'args': [mv(r), mv(y)], 'dest': P(tmp), 'target': entry,
                           'unwind': 'continue', 'span': span, 'exp': True, 'synthetic': True})
        st, sw = self.discr_switch(B, n, OPT, OPTION_VARIANTS, [[0, callbb], [1, some_bb]], span)
        B.fill(after, st, sw)
        B.blocks[bi] = dict(B.blocks[bi], term=goto(entry, span))
        B._defs = None
        return True

    # ------------------------------------------------------------------
    def step(self, B):
        for bi, b in enumerate(B.blocks):
            if b['cleanup'] or b['term']['k'] != 'call':
                continue
            t = b['term']
            callee = t.get('callee', '')
            if not callee or (t.get('synthetic') and not _is(callee, ('Iterator::next',))):
                continue      # (a synthetic next may sit on an adaptor that a later, fuller pass expands)
            kind = _is(callee, ITER_CONSUMERS)
            if kind and len(t['args']) == 2:
                clos = self.closure_of(B, t['args'][1])
                if clos and self.should_expand(clos[0], kind, B.j):
                    if self.expand_consumer(B, bi, t, kind, clos):
                        return True
                continue
            if _is(callee, ('Iterator::fold',)) and len(t['args']) == 3:
                # it.fold(init, |acc, x| body): `let mut acc = init; for x in it { acc = body(acc, x) } acc`
                clos = self.closure_of(B, t['args'][2])
                if clos and self.should_expand(clos[0], 'Iterator::fold', B.j):
                    if self.expand_consumer(B, bi, t, 'Iterator::fold', clos):
                        return True
                continue
            kind = _is(callee, VALUE_COMBINATORS)
            if kind:
                closes = {}
                for ai in range(1, len(t['args'])):
                    c = self.closure_of(B, t['args'][ai])
                    if c and self.should_expand(c[0], kind, B.j):
                        closes[ai] = c
                fn_args = {'Option::map_or': (2,), 'Option::map_or_else': (2,), 'Result::map_or': (2,)}.get(kind, (1,))
                if all(i in closes for i in fn_args):
                    if self.expand_value(B, bi, t, kind, closes):
                        return True
                continue
            if _is(callee, ('Try::branch',)) and len(t['args']) == 1 and t['target'] is not None and \
                    not t.get('desugared_try'):
                # `expr?` on an Option / Result: branch() is Continue(payload) for Some/Ok and
                # Break(residual) otherwise - written out so that the caller's match on it is threaded
                ty0 = (t.get('targs') or [''])[0]
                is_opt = ty0.startswith('std::option::Option<') or '<std::option::Option' in t.get('full', '')
                is_res = ty0.startswith('std::result::Result<') or '<std::result::Result' in t.get('full', '')
                if is_opt or is_res:
                    span = t['span']
                    CF = 'std::ops::ControlFlow'
                    recv = B.local(ty0 or '_')
                    adt, variants = (OPT, OPTION_VARIANTS) if is_opt else (RES, RESULT_VARIANTS)
                    pos_name, pos_idx = ('Some', 1) if is_opt else ('Ok', 0)
                    x = B.local('_')
                    cont = B.block([assign(x, use(mv(recv, *downcast(pos_name, pos_idx, adt))), span),
                                    assign_place(t['dest'], agg_variant(CF, 'Continue', [mv(x)]), span)],
                                   goto(t['target'], span))
                    if is_opt:
                        res = B.local('std::option::Option<std::convert::Infallible>')
                        brk = B.block([assign(res, agg_variant(OPT, 'None', []), span),
                                       assign_place(t['dest'], agg_variant(CF, 'Break', [mv(res)]), span)],
                                      goto(t['target'], span))
                    else:
                        e = B.local('_')
                        res = B.local('std::result::Result<std::convert::Infallible, _>')
                        brk = B.block([assign(e, use(mv(recv, *downcast('Err', 1, RES))), span),
                                       assign(res, agg_variant(RES, 'Err', [mv(e)]), span),
                                       assign_place(t['dest'], agg_variant(CF, 'Break', [mv(res)]), span)],
                                      goto(t['target'], span))
                    st, sw = self.discr_switch(B, recv, adt, variants,
                                               [[pos_idx, cont], [1 - pos_idx, brk]], span)
                    B.blocks[bi] = dict(B.blocks[bi], stmts=B.blocks[bi]['stmts'] + [assign(recv, use(t['args'][0]), span)] + st,
                                        term=sw)
                    B._defs = None
                    B.expanded.append('?')
                    return True
                continue
            if _is(callee, ('FromResidual::from_residual',)) and len(t['args']) == 1 and t['target'] is not None:
                # the other half of `expr?` on an Option: from_residual(None) is None - an aggregate, so that a
                # caller that takes the result apart (a helper returning Option, spliced in) is threaded
                ty0 = (t.get('targs') or [''])[0]
                if ty0.startswith('std::option::Option<'):
                    span = t['span']
                    B.blocks[bi] = dict(B.blocks[bi],
                                        stmts=B.blocks[bi]['stmts'] + [assign_place(t['dest'], agg_variant(OPT, 'None', []), span)],
                                        term=goto(t['target'], span))
                    B._defs = None
                    B.expanded.append('?')
                    return True
                a0 = t['args'][0]
                if ty0.startswith('std::result::Result<') and a0.get('k') in ('copy', 'move') and not a0['place']['p']:
                    # ... and on a Result: from_residual(Err(e)) is Err(e.into()) - an Err aggregate carrying the
                    # residual's payload (the conversion is the identity whenever the error types agree)
                    span = t['span']
                    B.blocks[bi] = dict(B.blocks[bi],
                                        stmts=B.blocks[bi]['stmts'] + [assign_place(
                                            t['dest'], agg_variant(RES, 'Err', [mv(a0['place']['l'], *downcast('Err', 1, RES))]),
                                            span)],
                                        term=goto(t['target'], span))
                    B._defs = None
                    B.expanded.append('?')
                    return True
                continue
            if _is(callee, ('bool::then_some',)) and len(t['args']) == 2 and t['target'] is not None:
                # b.then_some(v): Some(v) when b, None otherwise - a branch, not an opaque call
                span = t['span']
                yes = B.block([assign_place(t['dest'], agg_variant(OPT, 'Some', [t['args'][1]]), span)],
                              goto(t['target'], span))
                no = B.block([assign_place(t['dest'], agg_variant(OPT, 'None', []), span)], goto(t['target'], span))
                cond = B.local('bool')
                B.blocks[bi] = dict(B.blocks[bi], stmts=B.blocks[bi]['stmts'] + [assign(cond, use(t['args'][0]), span)],
                                    term={'k': 'switch', 'discr': cp(cond), 'targets': [[0, no]], 'otherwise': yes,
                                          'span': span, 'exp': True})
                B._defs = None
                B.expanded.append('then_some')
                return True
            if _is(callee, ('Entry::and_modify',)) and len(t['args']) == 2 and t['target'] is not None:
                clos = self.closure_of(B, t['args'][1])
                if clos and self.should_expand(clos[0], 'Entry::and_modify', B.j):
                    # entry.and_modify(f): f(&mut value) when the entry is occupied; the entry is handed on
                    span = t['span']
                    ent = B.local(B.locals[t['dest']['l']]['ty'] if not t['dest']['p'] else '_')
                    x = B.local(self.param_ty(clos, 0) or '&mut _')
                    r = B.local('&mut _')
                    tmp = B.local('()')
                    done = B.block([assign_place(t['dest'], use(mv(ent)), span)], goto(t['target'], span))
                    call = self.splice(B, clos, [mv(x)], P(tmp), done, span)
                    occ = B.block([assign(r, ref(ent, True), span)],
                                  {'k': 'call', 'decl': 'desugar::occupied_value', 'full': 'desugar::occupied_value',
                                   'callee': 'desugar::occupied_value', 'local': False, 'targs': [], 'args': [mv(r)],
                                   'dest': P(x), 'target': call, 'unwind': 'continue', 'span': span, 'exp': True,
                                   'synthetic': True})
                    st, sw = self.discr_switch(B, ent, 'std::collections::hash_map::Entry',
                                               [[0, 'Occupied'], [1, 'Vacant']], [[0, occ], [1, done]], span)
                    B.blocks[bi] = dict(B.blocks[bi], stmts=B.blocks[bi]['stmts'] + [assign(ent, use(t['args'][0]), span)] + st,
                                        term=sw)
                    B._defs = None
                    return True
                continue
            kind = _is(callee, SCOPED)
            if kind and len(t['args']) == 2 and t['target'] is not None:
                clos = self.closure_of(B, t['args'][1])
                if clos and self.should_expand(clos[0], kind, B.j):
                    # `KEY.with(|v| body)`: body runs once on a reference to the thread-local value
                    span = t['span']
                    x = B.local(self.param_ty(clos, 0) or '&_')
                    entry = self.splice(B, clos, [mv(x)], t['dest'], t['target'], span)
                    B.blocks[bi] = dict(B.blocks[bi], term={
                        'k': 'call', 'decl': 'desugar::thread_local', 'full': 'desugar::thread_local',
                        'callee': 'desugar::thread_local', 'local': False, 'targs': [], 'args': [t['args'][0]],
                        'dest': P(x), 'target': entry, 'unwind': 'continue', 'span': span, 'exp': True,
                        'synthetic': True})
                    B._defs = None
                    return True
                continue
            kind = _is(callee, DIRECT_CALLS) or _is(t.get('decl', ''), DIRECT_CALLS)
            if kind and t['args']:
                clos = self.closure_of(B, t['args'][0])
                if clos is None and callee in self.raw and self.raw[callee]['kind'] == 'Closure' and \
                        callee != B.j['path']:
                    # a closure that was created elsewhere (in the enclosing function), captured by this body
                    # and called here: the callee is known from the type; its environment is the place called
                    a0 = t['args'][0]
                    envp = None
                    if a0.get('k') in ('move', 'copy'):
                        if a0['place']['p']:
                            envp = a0['place']
                        else:
                            d = B.one_def(a0['place']['l'])
                            if d is not None and d[0] == 'stmt' and d[2]['rv']['k'] == 'ref':
                                envp = d[2]['rv']['place']
                    if envp is not None:
                        clos = (callee, None, None, envp)
                if clos and self.should_expand(clos[0], kind, B.j):
                    if self.expand_direct(B, bi, t, clos):
                        return True
                continue
            if _is(callee, ('Iterator::next',)) and t['args']:
                h = self.iter_handle(B, t['args'][0])
                if h and not h[1] and self.find_adaptor(B, h[0]) is not None and t['target'] is not None:
                    after = B.reserve()
                    entry, n = self.gen_next(B, h, after, t['span'])
                    B.fill(after, [assign_place(t['dest'], use(mv(n)), t['span'])], goto(t['target'], t['span']))
                    B.blocks[bi] = dict(B.blocks[bi], term=goto(entry, t['span']))
                    B._defs = None
                    return True
                continue
            if _is(callee, ITER_ADAPTORS) or _is(callee, PASS_THROUGH):
                continue
            for ai, a in enumerate(t['args']):
                if a.get('k') in ('move', 'copy') and not a['place']['p'] and \
                        not B.locals[a['place']['l']]['ty'].startswith('&') and \
                        self.find_adaptor(B, a['place']['l']) is not None:
                    if self.materialise(B, bi, t, ai, a['place']['l']):
                        return True
        return False

    def run(self, j):
        if not any(b['term']['k'] == 'call' for b in j['blocks']):
            return j
        B = _B(j)
        n = 0
        while n < 200 and self.step(B):
            n += 1
        if not n:
            return j
        nj = dict(j, blocks=B.blocks, locals=B.locals, promoted=B.promoted, debug=B.debug)
        nj['desugared'] = sorted(set(B.expanded) | set(j.get('desugared', [])))
        return nj


# ------------------------------------------------------------------------------------------------
def split_switch_operands(j):
    """Tail duplication for switches on a temporary that has several definitions.

    `r = a && !b()` is lowered to   bbA: r = false; goto J     bbB: t = b(); r = Not(t); goto J
    J: switch r.  The value tested at J is known per predecessor but `r` has two definitions, so
    def-use tracing stops there. For every predecessor X whose (non-constant) definition of the
    switched temporary reaches the switch through assignment-only blocks, the chain X->...->J is
    duplicated, and the duplicate switches on a fresh single-definition copy of X's value.
    Constant definitions are left to jump threading. Path duplication only: no behaviour is added
    or removed."""
    blocks = j['blocks']
    user = set(d['place']['l'] for d in j.get('debug', []) if not d['place']['p'])
    # multi-def whole locals that some switch tests directly
    tested = set()
    for b in blocks:
        t = b['term']
        if not b['cleanup'] and t['k'] == 'switch' and t['discr'].get('k') in ('copy', 'move') \
                and not t['discr']['place']['p']:
            tested.add(t['discr']['place']['l'])
    if not tested:
        return j
    ndefs = {}
    for b in blocks:
        if b['cleanup']:
            continue
        for st in b['stmts']:
            if st['k'] == 'assign' and not st['lhs']['p']:
                ndefs[st['lhs']['l']] = ndefs.get(st['lhs']['l'], 0) + 1
        if b['term']['k'] == 'call' and not b['term']['dest']['p']:
            ndefs[b['term']['dest']['l']] = ndefs.get(b['term']['dest']['l'], 0) + 1
    new_blocks = None
    new_locals = None
    nsplit = 0
    for x in range(len(blocks)):
        bx = (new_blocks or blocks)[x]
        if bx['cleanup']:
            continue
        tk = bx['term']['k']
        sym = {}
        if tk in ('goto', 'drop'):
            for si, st in enumerate(bx['stmts']):
                if st['k'] != 'assign' or st['lhs']['p']:
                    continue
                l = st['lhs']['l']
                rv = st['rv']
                if rv['k'] == 'use' and rv['op'].get('k') == 'const':
                    sym.pop(l, None)
                elif rv['k'] == 'use' and rv['op'].get('k') in ('copy', 'move') and not rv['op']['place']['p'] \
                        and rv['op']['place']['l'] in sym:
                    s0 = sym[rv['op']['place']['l']]
                    sym[l] = s0[:3] + (s0[3] or ndefs.get(l, 0) > 1,)
                elif rv['k'] in ('use', 'un', 'bin', 'cast', 'discr'):
                    sym[l] = ('stmt', si, l, ndefs.get(l, 0) > 1)
                else:
                    sym.pop(l, None)
            cur = bx['term']['target']
        elif tk == 'call' and not bx['term']['dest']['p'] and bx['term'].get('target') is not None:
            sym[bx['term']['dest']['l']] = ('call', None, bx['term']['dest']['l'],
                                            ndefs.get(bx['term']['dest']['l'], 0) > 1)
            cur = bx['term']['target']
        else:
            continue
        if not sym:
            continue
        chain = []
        hit = None
        for _ in range(8):
            bc = (new_blocks or blocks)[cur]
            if bc['cleanup'] or cur == x or cur in chain:
                break
            ok = True
            for st in bc['stmts']:
                if st['k'] != 'assign':
                    ok = False
                    break
                if st['lhs']['p']:
                    continue
                l = st['lhs']['l']
                if l in user:
                    ok = False
                    break
                rv = st['rv']
                if rv['k'] == 'use' and rv['op'].get('k') in ('copy', 'move') and not rv['op']['place']['p'] \
                        and rv['op']['place']['l'] in sym:
                    s0 = sym[rv['op']['place']['l']]
                    sym[l] = s0[:3] + (s0[3] or ndefs.get(l, 0) > 1,)
                else:
                    sym.pop(l, None)
            if not ok or not sym:
                break
            chain.append(cur)
            k = bc['term']['k']
            if k in ('goto', 'drop'):
                cur = bc['term']['target']
                continue
            if k == 'switch':
                d = bc['term']['discr']
                if d.get('k') in ('copy', 'move') and not d['place']['p'] and d['place']['l'] in sym \
                        and sym[d['place']['l']][3]:
                    hit = sym[d['place']['l']]
            break
        if hit is None:
            continue
        if new_blocks is None:
            new_blocks = [dict(b) for b in blocks]
            new_locals = list(j['locals'])
            bx = new_blocks[x]
        kind, si, l, _multi = hit
        f = len(new_locals)
        new_locals.append(dict(new_locals[l]))
        span = bx['term']['span']
        # duplicate the chain
        base = len(new_blocks)
        for ci, c in enumerate(chain):
            nb = dict(new_blocks[c])
            t = dict(nb['term'])
            if ci + 1 < len(chain):
                t['target'] = base + ci + 1
            else:
                t['discr'] = {'k': 'copy', 'place': {'l': f, 'p': []}}
            nb['term'] = t
            nb['stmts'] = list(nb['stmts'])
            new_blocks.append(nb)
        if kind == 'stmt':
            st = bx['stmts'][si]
            rv = st['rv']
            stmts = list(bx['stmts'])
            stmts.insert(si + 1, {'k': 'assign', 'lhs': {'l': f, 'p': []},
                                  'rv': {'k': 'use', 'op': {'k': 'copy', 'place': {'l': l, 'p': []}}},
                                  'span': st['span'], 'exp': True})
            # the fresh local takes over the definition; the original becomes its copy
            stmts[si] = dict(st, lhs={'l': f, 'p': []})
            stmts[si + 1] = {'k': 'assign', 'lhs': {'l': l, 'p': []},
                             'rv': {'k': 'use', 'op': {'k': 'copy', 'place': {'l': f, 'p': []}}},
                             'span': st['span'], 'exp': True}
            new_blocks[x] = dict(bx, stmts=stmts, term=dict(bx['term'], target=base))
        else:
            first = new_blocks[base]
            first['stmts'] = [{'k': 'assign', 'lhs': {'l': l, 'p': []},
                               'rv': {'k': 'use', 'op': {'k': 'move', 'place': {'l': f, 'p': []}}},
                               'span': span, 'exp': True}] + first['stmts']
            new_blocks[x] = dict(bx, term=dict(bx['term'], dest={'l': f, 'p': []}, target=base))
        nsplit += 1
    if new_blocks is None:
        return j
    nj = dict(j, blocks=new_blocks, locals=new_locals)
    nj['split_switches'] = nsplit
    return nj
