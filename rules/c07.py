"""C07 - message transport obeys the selected network semantics."""
import re
from collections import Counter

from actor_rules import ACTIONS, is_usize_from_id, noref
from common import bodies_with_closures, edges_where, iter_places, outer_val
from mir import AnchorMissing, V

LEVEL_TEXT = (
    'Static rules over actor::network and ActorModel::actions: every Iterator::next impl of the crate '
    'makes progress on each path that yields an item; per network variant, deliver/drop have the '
    'effect kind the variant promises (duplicating: deliver leaves the envelope set untouched, drop '
    'removes; non-duplicating and ordered: deliver and drop are the same removal; send increments the '
    'multiplicity rather than overwriting); ordered flows are appended at the back, read at the front '
    'and shortened only by order-preserving removal; actions() enumerates deliverable envelopes, '
    'offers Drop only on a lossy network and Deliver only to existing actors, and at most the head of '
    'each ordered flow. Agreement of len()/iter_all() counts is arithmetic and is not decided.')

FLOORS = {'C07-R1': 4, 'C07-R2': 7, 'C07-R3': 6, 'C07-R4': 4, 'C07-R5': 4, 'C07-R6': 3, 'C07-R7': 5, 'C07-R8': 1, 'C06-R3': 10}

NET = 'actor::network::Network::<Msg>::'
ORDER_BREAKING = ('VecDeque::swap_remove_back', 'VecDeque::swap_remove_front', 'Vec::swap_remove',
                  'VecDeque::rotate_left', 'VecDeque::rotate_right', 'VecDeque::swap', 'slice::reverse',
                  'VecDeque::push_front', 'VecDeque::pop_back', 'slice::sort', 'slice::sort_unstable',
                  'VecDeque::make_contiguous', 'VecDeque::insert', 'VecDeque::retain', 'VecDeque::truncate',
                  'VecDeque::clear', 'VecDeque::drain', 'VecDeque::split_off')


def self_variant_switch(b):
    sws = [sw for sw in b.switches if sw.kind == 'variant' and noref(sw.on) == V('arg', 1)]
    sws = [s_ for s_ in sws if not any(o is not s_ and b.dominates(o.bb, s_.bb) for o in sws)]
    if len(sws) != 1:
        raise AnchorMissing('%s: match on self' % b.path)
    return sws[0]


def arm_calls(F, b, sw, variant, user_only=True):
    edges = sw.edges_for(variant)
    if not edges:
        raise AnchorMissing('%s: arm %s' % (b.path, variant))
    blocks = b.reach([e[1] for e in edges])
    out = []
    for c in b.calls:
        if c.bb in blocks and not (user_only and c.exp):
            out.append(c)
    # closures created inside the arm
    for (i, si, st) in b.assigns(lambda st: st['rv']['k'] == 'agg' and st['rv'].get('agg') == 'closure'):
        if i in blocks:
            cl = F.bodies.get(st['rv']['closure'])
            if cl is not None:
                out += [c for c in cl.calls if not (user_only and c.exp)]
    return out, blocks


def progress_blocks(b):
    """blocks that store through self or hand `&mut` of (part of) self to a callee"""
    out = set()
    for (i, si, st) in b.assigns():
        lhs = st['lhs']
        if lhs['p']:
            root = noref(b.place_val({'l': lhs['l'], 'p': []}))
            if root.kind == 'arg' and root.key == 1:
                out.add(i)
            # store through a &mut obtained by pattern matching on *self
            v = b.place_val({'l': lhs['l'], 'p': []})
            if v.kind == 'arg' and v.key == 1:
                out.add(i)
    for c in b.calls:
        for a in c.args:
            if a['k'] not in ('move', 'copy'):
                continue
            l = a['place']['l']
            if not b.locals[l]['ty'].startswith('&mut'):
                continue
            v = noref(b.val(a))
            if v.kind == 'arg' and v.key == 1:
                out.add(c.bb)
    return out


def r1_iterator_progress(ctx, F):
    rule = 'C07-R1'
    n = 0
    for im in F.impls_of('Iterator'):
        nxt = None
        for it in im['provided']:
            if it['name'] == 'next':
                nxt = F.bodies.get(it['path'])
        if nxt is None:
            continue
        n += 1
        b = nxt
        ctx.touched(b)
        prog = progress_blocks(b)
        nones = set(i for (i, si, st) in b.assigns(lambda st: st['lhs']['l'] == 0 and not st['lhs']['p'] and
                                                   st['rv']['k'] == 'agg' and st['rv'].get('variant') == 'None'))
        # `expr?` on an Option returns None through FromResidual::from_residual
        nones |= set(c.bb for c in b.calls_to('FromResidual::from_residual') if c.dest['l'] == 0 and not c.dest['p'])
        r = b.reach([0], cut_blocks=prog | nones)
        stuck = any(x in r for x in b.returns) and 0 not in (prog | nones)
        if 0 in prog or 0 in nones:
            stuck = False
        # name the arm for the report
        where = ''
        if stuck:
            try:
                sw = self_variant_switch(b)
                for (lab, t) in sw.edges:
                    if isinstance(lab, str):
                        rr = b.reach([t], cut_blocks=prog | nones)
                        if any(x in rr for x in b.returns):
                            where = ' (arm %s)' % lab
            except AnchorMissing:
                pass
        ctx.check(not stuck, rule, 'next-makes-progress', b,
                  good='every path of next() that yields an item advances the iterator state',
                  bad='%s%s: there is a path that returns Some(..) without any store through `self` and '
                      'without handing `&mut self.*` to a callee: the iterator yields the same item '
                      'forever' % (b.path, where))
    if n < 4:
        raise AnchorMissing('expected >= 4 Iterator impls in the crate, found %d' % n)


def names(calls, F=None, depth=0):
    """multiset of callee names; calls to local (crate) helper functions are replaced by the calls
    of the helper's body (two levels), so extracting a helper on one side keeps siblings equal"""
    out = Counter()
    for c in calls:
        hb = F.bodies.get(c.callee) if (F is not None and c.local and depth < 2) else None
        if hb is not None and hb.kind != 'Closure' and not hb.path.startswith('<'):
            inner = [x for y in [hb] + F.closures_under(hb) for x in y.calls if not x.exp]
            out += names(inner, F, depth + 1)
            continue
        out[c.short.split('::')[-2] + '::' + c.short.split('::')[-1] if '::' in c.short else c.short] += 1
    return out


def effective_regions(F, fn, blocks):
    """(body, blocks) pairs to search: the arm itself plus the bodies of local helpers it calls"""
    out = [(fn, blocks)]
    for c in fn.calls:
        if c.bb in blocks and c.local:
            hb = F.bodies.get(c.callee)
            if hb is not None and hb.kind != 'Closure' and not hb.path.startswith('<'):
                out.append((hb, hb.live_blocks()))
    return out


def r2_effect_kinds(ctx, F):
    rule = 'C07-R2'
    dl = F.body(NET + 'on_deliver')
    dr = F.body(NET + 'on_drop')
    sd = F.body(NET + 'send')
    for x in (dl, dr, sd):
        ctx.touched(x)
    sdl, sdr, ssd = self_variant_switch(dl), self_variant_switch(dr), self_variant_switch(sd)
    # duplicating: deliver must not mutate the envelope set, drop must remove from it
    cdl, bdl = arm_calls(F, dl, sdl, 'UnorderedDuplicating')
    cdr, bdr = arm_calls(F, dr, sdr, 'UnorderedDuplicating')
    mut_set = [c for c in cdl if c.is_('HashSet::remove', 'HashSet::insert', 'HashSet::clear', 'HashSet::retain',
                                       'HashableHashSet::remove', 'HashSet::take', 'HashSet::drain')]
    ctx.check(not mut_set, rule, 'duplicating-deliver-keeps-envelope', dl,
              good='delivery on a duplicating network leaves the envelope set untouched (redelivery possible)',
              bad='Network::on_deliver mutates the envelope set of a duplicating network (%s): the message '
                  'can no longer be redelivered' % [c.short for c in mut_set])
    rm = [c for c in cdr if c.is_('HashSet::remove', 'HashableHashSet::remove', 'HashSet::take')]
    okrm = len(rm) == 1 and noref(dr.val(rm[0].args[1])) == V('arg', 2)
    ctx.check(okrm, rule, 'duplicating-drop-removes-envelope', dr,
              good='a drop on a duplicating network removes exactly the dropped envelope',
              bad='Network::on_drop does not remove the dropped envelope from a duplicating network: it can '
                  'still be delivered after having been dropped')
    # non-duplicating and ordered: deliver and drop are the same removal
    for v in ('UnorderedNonDuplicating', 'Ordered'):
        a, _ = arm_calls(F, dl, sdl, v)
        b_, _ = arm_calls(F, dr, sdr, v)
        na, nb = names(a, F), names(b_, F)
        ctx.check(na == nb, rule, 'deliver-equals-drop-%s' % v, dl,
                  good='on_deliver and on_drop perform the same removal on %s (%d calls)' % (v, sum(na.values())),
                  bad='Network::on_deliver and Network::on_drop differ on %s: only-in-deliver %s, '
                      'only-in-drop %s: one of them removes more/less than one copy' %
                      (v, dict(na - nb), dict(nb - na)))
    # non-duplicating removal: remove the entry when the count is 1, otherwise decrement by 1
    for (fn, sw_) in ((dl, sdl), (dr, sdr)):
        cs0, blocks0 = arm_calls(F, fn, sw_, 'UnorderedNonDuplicating')
        rmv, dec, eq1 = [], [], False
        for (g, blocks) in effective_regions(F, fn, blocks0):
            rm_g = [c for c in g.calls if c.bb in blocks and c.is_('OccupiedEntry::remove', 'OccupiedEntry::remove_entry')]
            rmv += rm_g
            for (i, si, st) in g.assigns(lambda st: st['rv']['k'] == 'bin' and st['rv']['op'] in ('SubWithOverflow', 'Sub')):
                if i in blocks:
                    one = g.val(st['rv']['b'])
                    if one.kind == 'const' and one.key == 1:
                        # the decremented value must be written back into the map entry
                        wb = False
                        for (j, sj, st2) in g.assigns(lambda st2: st2['lhs']['p'] == ['deref']):
                            if j in blocks:
                                src = g.val(st2['rv']['op']) if st2['rv']['k'] == 'use' else None
                                tgt = g.place_val({'l': st2['lhs']['l'], 'p': []})
                                tc = g.call_at(tgt.key) if tgt.kind == 'call' else None
                                if src is not None and src.kind == 'bin' and tc is not None and \
                                        tc.is_('OccupiedEntry::get_mut', 'HashMap::get_mut', 'OccupiedEntry::into_mut'):
                                    wb = True
                        if wb:
                            dec.append(i)
            # the entry is removed exactly when the count is 1 (`v == 1`, `v != 1 {} else {..}`, ...)
            one_edges = [e for (bb_, es) in edges_where(g, lambda v: True,
                                                        lambda v: noref(v).kind == 'const' and noref(v).key == 1, 'eq',
                                                        with_blocks=True) if bb_ in blocks for e in es]
            if rm_g and one_edges and g.edges_dominate(one_edges, rm_g[0].bb):
                eq1 = True
        ctx.check(len(rmv) == 1 and len(dec) == 1 and eq1, rule, 'nondup-removes-one-copy@%s' % fn.path.split('::')[-1], fn,
                  good='one copy is removed: entry dropped at count 1, otherwise count - 1',
                  bad='%s on UnorderedNonDuplicating does not remove exactly one copy (entry removal when '
                      'count == 1: %s, decrement by one written back to the entry: %d site(s))' % (fn.path, eq1, len(dec)))
    # send on non-duplicating increments (read in normal form: `*e.or_insert(0) += 1` and
    # `e.and_modify(|n| *n += 1).or_insert(1)` are the same update)
    sn = F.norm(sd)
    ssn = self_variant_switch(sn)
    cs, blocks = arm_calls(F, sn, ssn, 'UnorderedNonDuplicating')
    inc = []
    for (i, si, st) in sn.assigns(lambda st: st['rv']['k'] == 'bin' and st['rv']['op'] in ('AddWithOverflow', 'Add')):
        if i in blocks:
            one = sn.val(st['rv']['b'])
            if one.kind == 'const' and one.key == 1:
                inc.append(i)
    ins = [c for c in cs if c.is_('HashMap::insert', 'HashableHashMap::insert', 'Entry::insert', 'Entry::insert_entry')]
    ori = [c for c in cs if c.is_('Entry::or_insert', 'Entry::or_default', 'Entry::or_insert_with')]
    dflt = None
    if ori:
        dflt = 0 if len(ori[0].args) < 2 else (sn.val(ori[0].args[1]).key if sn.val(ori[0].args[1]).kind == 'const' else None)
    starts = [e[1] for e in ssn.edges_for('UnorderedNonDuplicating')]
    if dflt == 0:
        # starts from 0: the increment is on every path
        zero = bool(inc) and not any(x in sn.reach(starts, cut_blocks=inc) for x in sn.returns)
    elif dflt == 1:
        # starts from 1 when absent: the increment runs exactly when the entry was occupied
        occ = [e for sw in sn.switches if sw.kind == 'variant' and sw.bb in blocks for e in sw.edges_for('Occupied')]
        zero = bool(inc) and bool(occ) and all(sn.edges_dominate(occ, i) for i in inc) and \
            not any(x in sn.reach([e[1] for e in occ], cut_blocks=inc) for x in sn.returns)
    else:
        # the entry matched by hand: `match m.entry(e) { Occupied(mut c) => *c.get_mut() += 1, Vacant(s) => {
        # s.insert(1); } }` - one more on the occupied path, exactly 1 on the vacant one
        esw = [sw for sw in sn.switches if sw.kind == 'variant' and sw.bb in blocks and sw.edges_for('Occupied') and
               sw.edges_for('Vacant')]
        zero = False
        if len(esw) == 1:
            occ = esw[0].edges_for('Occupied')
            vac = esw[0].edges_for('Vacant')
            vins = [c for c in cs if c.is_('VacantEntry::insert', 'VacantEntry::insert_entry') and len(c.args) >= 2 and
                    sn.val(c.args[1]).kind == 'const' and sn.val(c.args[1]).key == 1]
            zero = bool(inc) and all(sn.edges_dominate(occ, i) for i in inc) and \
                not any(x in sn.reach([e[1] for e in occ], cut_blocks=inc) for x in sn.returns) and \
                len(vins) == 1 and sn.edges_dominate(vac, vins[0].bb) and \
                not any(x in sn.reach([e[1] for e in vac], cut_blocks=[vins[0].bb]) for x in sn.returns)
    ctx.check(len(inc) == 1 and not ins and zero, rule, 'nondup-send-increments', sd,
              good='send on a non-duplicating network adds one to the multiplicity (starting from 0)',
              bad='Network::send on UnorderedNonDuplicating does not increment the multiplicity of the '
                  'envelope by one (increments: %d, overwriting inserts: %s, default of a new entry: %s): a second copy '
                  'of a message is lost or invented' % (len(inc), [c.short for c in ins], dflt))
    nondup_sites = [c.bb for c in ori]
    if not ori and zero:
        # hand-matched entry: the increment on the occupied path and the insert on the vacant one
        nondup_sites = list(inc) + [c.bb for c in cs if c.is_('VacantEntry::insert', 'VacantEntry::insert_entry')]
    # send on duplicating inserts the envelope
    cs, blocks = arm_calls(F, sd, ssd, 'UnorderedDuplicating')
    ins = [c for c in cs if c.is_('HashSet::insert', 'HashableHashSet::insert')]
    ctx.check(len(ins) == 1 and noref(sd.val(ins[0].args[1])) == V('arg', 2), rule, 'dup-send-inserts', sd,
              good='send on a duplicating network inserts the envelope',
              bad='Network::send on UnorderedDuplicating does not insert the sent envelope')
    # ... on every path: a sent message is in the network afterwards, whatever was delivered before
    for variant, sites, g_, sw_ in (('UnorderedDuplicating', [c.bb for c in ins], sd, ssd),
                                    ('UnorderedNonDuplicating', nondup_sites, sn, ssn)):
        starts = [e[1] for e in sw_.edges_for(variant)]
        r = g_.reach(starts, cut_blocks=sites) if starts and sites else set(g_.returns)
        ctx.check(bool(sites) and not any(x in r for x in g_.returns), rule, 'send-always-adds@%s' % variant, sd,
                  good='send on %s adds the envelope on every path' % variant,
                  bad='Network::send on %s can return without adding the envelope (the insertion is conditional): '
                      'a sent message is in flight on some histories and silently missing on others, so it is '
                      'neither deliverable nor droppable' % variant)


def r3_fifo(ctx, F):
    rule = 'C07-R3'
    sd = F.body(NET + 'send')
    ssd = self_variant_switch(sd)
    cs, _ = arm_calls(F, sd, ssd, 'Ordered')
    pb = [c for c in cs if c.is_('VecDeque::push_back')]
    pf = [c for c in cs if c.is_('VecDeque::push_front', 'VecDeque::insert')]
    okk = False
    if pb:
        # keyed by (src, dst) of the envelope
        ent = [c for c in cs if c.is_('BTreeMap::entry')]
        if ent:
            kv = sd.val(ent[0].args[1])
            if kv.kind == 'agg' and len(kv.key[3]) == 2:
                f0, f1 = noref(kv.key[3][0]), noref(kv.key[3][1])
                okk = f0.fields() == ('.src',) and f1.fields() == ('.dst',)
    ctx.check(len(pb) == 1 and not pf and okk, rule, 'ordered-send-appends', sd,
              good='send appends to the back of the (src, dst) flow',
              bad='Network::send on Ordered does not push_back onto the flow keyed by (src, dst)')
    # deliverable iterator reads the front of each flow
    it = [x for x in F.bodies.values() if 'NetworkDeliverableIter' in x.path and x.path.endswith('::next')
          and x.kind != 'Closure']
    if len(it) != 1:
        raise AnchorMissing('NetworkDeliverableIter::next')
    it = it[0]
    ctx.touched(it)
    sw = self_variant_switch(it)
    cs, _ = arm_calls(F, it, sw, 'Ordered')
    fr = [c for c in cs if c.is_('VecDeque::front')]
    bk = [c for c in cs if c.is_('VecDeque::back', 'VecDeque::get', 'VecDeque::iter', 'Index::index')]
    ctx.check(len(fr) == 1 and not bk, rule, 'ordered-deliverable-is-front', it,
              good='the deliverable message of a flow is its front',
              bad='NetworkDeliverableIter::next on Ordered does not read exactly the front of each flow: a '
                  'message other than the oldest one becomes deliverable')
    # removal is order preserving
    for fn in ('on_deliver', 'on_drop', 'send'):
        b = F.body(NET + fn)
        swb = self_variant_switch(b)
        cs, _ = arm_calls(F, b, swb, 'Ordered')
        bad = [c for c in cs if c.is_(*ORDER_BREAKING) and not (fn == 'send' and c.is_('VecDeque::with_capacity'))]
        ctx.check(not bad, rule, 'ordered-%s-preserves-order' % fn, b,
                  good='%s touches ordered flows only with order-preserving operations' % fn,
                  bad='Network::%s on Ordered uses %s: the relative order of the remaining messages of a '
                      'flow changes, so they are delivered out of send order' %
                      (fn, [c.short.split('::')[-1] + '@' + c.span for c in bad]))
    # removal removes the matching message from the flow keyed by (src, dst)
    for fn in ('on_deliver', 'on_drop'):
        b = F.body(NET + fn)
        swb = self_variant_switch(b)
        cs, _ = arm_calls(F, b, swb, 'Ordered')
        rm = [c for c in cs if c.is_('VecDeque::remove', 'VecDeque::pop_front')]
        whole = [c for c in cs if c.is_('OccupiedEntry::remove', 'BTreeMap::remove')]
        # exactly one removal on every path (the sites may be alternatives: `pop_front()` for the head, `remove(i)`
        # otherwise; `whole` when the flow would become empty): no path passes two of them, none avoids all
        sites = [c.bb for c in rm + whole]
        entry = swb.edges_for('Ordered')
        one_each = bool(rm) and bool(whole) and bool(entry)
        if one_each:
            for x in sites:
                after = b.reach([b.call_at(x).target] if b.call_at(x).target is not None else [])
                if any(y in after for y in sites):
                    one_each = False              # a second removal can follow
            r0 = b.reach([e[1] for e in entry], cut_blocks=sites)
            if any(x in r0 for x in b.returns):
                one_each = False                  # a path removes nothing
        ctx.check((len(rm) == 1 and len(whole) == 1) or one_each, rule, 'ordered-%s-removes-one' % fn, b,
                  good='%s removes one message, dropping the flow when it becomes empty' % fn,
                  bad='Network::%s on Ordered does not remove exactly one message (flow removal sites %d, '
                      'element removal sites %d)' % (fn, len(whole), len(rm)))
    # actions() enumerates deliverable envelopes
    ac = F.body(ACTIONS)
    # every Deliver / Drop offer is built from an element of state.network.iter_deliverable() (the loop may be
    # written once, or once per kind of network), and iter_all() is not consulted
    from taint import origins as _org
    dcalls = ac.calls_to('Network::iter_deliverable')
    okd = len(dcalls) >= 1 and not ac.calls_to('Network::iter_all')
    if okd and len(dcalls) > 1:
        acn = F.norm(ac)
        heads = []
        for h in acn.calls_to('Iterator::next'):
            srcv = noref(acn.trace(acn.val(h.args[0]), ('IntoIterator::into_iter',)))
            hc = acn.call_at(srcv.key) if srcv.kind == 'call' else None
            if hc is not None and hc.is_('Network::iter_deliverable'):
                heads.append(h)
        for (i, si, st) in acn.assigns(lambda st: st['rv']['k'] == 'agg' and
                                       st['rv'].get('adt', '').endswith('ActorModelAction') and
                                       st['rv'].get('variant') in ('Deliver', 'Drop')):
            if not any(acn.dominates(h.bb, i) and acn.in_cycle(h.bb) for h in heads):
                okd = False
    ctx.check(okd, rule, 'actions-uses-deliverable', ac,
              good='actions() enumerates iter_deliverable()',
              bad='ActorModel::actions does not enumerate exactly the deliverable envelopes')


def promoted_variant(b, v):
    """variant name of an enum constant referenced through a promoted"""
    if v.kind == 'const' and isinstance(v.key, str) and v.key.startswith('promoted:'):
        idx = int(v.key.split(':')[1])
        pj = b.j['promoted'][idx]
        for blk in pj['blocks']:
            for st in blk['stmts']:
                if st['k'] == 'assign' and st['rv']['k'] == 'agg' and st['rv'].get('variant'):
                    return st['rv']['variant']
    return None


def ring_buffer_views_complete(ctx, F, rule='C07-R3'):
    """A flow is a VecDeque, i.e. a ring buffer: `as_slices()` returns TWO slices and the first one holds all
    elements only as long as the buffer has not wrapped. Code in actor::network that takes such a view has to use
    both halves, otherwise part of a flow is invisible to it (iter_all, len, a search for the message to remove)
    once a delivery and a send have wrapped the buffer."""
    from taint import rv_operands
    n = 0
    for b in F.bodies.values():
        if not (b.path.startswith('actor::network::') or b.path.startswith('<actor::network::')):
            continue
        n += 1
        for c in b.calls_to('VecDeque::as_slices', 'VecDeque::as_mut_slices'):
            ctx.touched(b)
            used = set()
            dl = c.dest['l']
            ops = []
            for bl in b.blocks:
                for st in bl['stmts']:
                    if st['k'] == 'assign':
                        ops += list(rv_operands(st['rv']))
                        if st['rv']['k'] in ('ref', 'discr'):
                            ops.append({'k': 'copy', 'place': st['rv']['place']})
                if bl['term']['k'] == 'call':
                    ops += list(bl['term']['args'])
            whole = False
            for o in ops:
                if o.get('k') in ('copy', 'move') and o['place']['l'] == dl:
                    fs = [e for e in o['place']['p'] if isinstance(e, dict) and 'f' in e]
                    if fs:
                        used.add(fs[0]['f'])
                    else:
                        whole = True
            ctx.check(whole or used >= {0, 1}, rule, 'flow-view-uses-both-halves', b,
                      good='both slices of the ring buffer are used',
                      bad='%s looks at only one of the two slices that VecDeque::%s returns: after the buffer has '
                          'wrapped (a delivery followed by a send on the same flow) the messages in the other half are '
                          'skipped, so iter_all / len / the search no longer agree with the contents of the flow' %
                          (b.path, c.short.split('::')[-1]), span=c.span)
    if n < 10:
        raise AnchorMissing('functions of actor::network (found %d)' % n)


def r4_actions(ctx, F):
    rule = 'C07-R4'
    b = F.body(ACTIONS)
    ctx.touched(b)
    sites = {}
    for (i, si, st) in b.assigns(lambda st: st['rv']['k'] == 'agg' and
                                 st['rv'].get('adt', '').endswith('ActorModelAction')):
        sites.setdefault(st['rv']['variant'], []).append((i, st))
    if 'Drop' not in sites or 'Deliver' not in sites:
        raise AnchorMissing('actions(): Drop / Deliver construction sites')
    eqs = [c for c in b.calls_to('PartialEq::eq') if c.targs and c.targs[0].endswith('LossyNetwork')]
    ok = False
    for c in eqs:
        va, vb = noref(b.val(c.args[0])), b.val(c.args[1])
        lhs_ok = va.fields()[-1:] == ('.lossy_network',)
        # second operand: promoted constant LossyNetwork::Yes
        pv = None
        for x in (b.val(c.args[1]), noref(b.val(c.args[1]))):
            pv = pv or promoted_variant(b, V(x.kind, x.key))
        te = b.branch(c, True)
        if lhs_ok and pv == 'Yes' and te and all(b.edges_dominate(te, i) for (i, st) in sites['Drop']):
            ok = True
    # ... or asked with a match: `matches!(self.lossy_network, LossyNetwork::Yes)`, also hoisted into a flag
    if not ok:
        from common import variant_flags
        evid = [e for sw in b.switches if sw.kind == 'variant' and noref(sw.on).fields()[-1:] == ('.lossy_network',)
                for e in sw.edges_for('Yes')]
        for l, m in variant_flags(b, 'lossy_network').items():
            yes_val = True if 'Yes' in m[True] and 'Yes' not in m[False] else False if 'Yes' in m[False] and 'Yes' not in m[True] else None
            if yes_val is None:
                continue
            evid += [e for sw in b.switches if sw.kind == 'bool' and sw.on.kind == 'local' and sw.on.key == l
                     for e in sw.edges_for(yes_val)]
        ok = bool(evid) and all(b.edges_dominate(evid, i) for (i, st) in sites['Drop'])
    ctx.check(ok, rule, 'drop-only-when-lossy', b,
              good='Drop actions are offered only when lossy_network == LossyNetwork::Yes',
              bad='ActorModel::actions offers Drop steps without lossy_network == Yes: messages disappear '
                  'on a reliable network')
    # the dropped envelope is the enumerated one
    okd = True
    for (i, st) in sites['Drop']:
        v = b.val(st['rv']['ops'][0])
        c = b.call_at(v.key) if v.kind == 'call' else None
        if c is None or not c.is_('Envelope::to_cloned_msg'):
            okd = False
    ctx.check(okd, rule, 'drop-of-enumerated-envelope', b,
              good='the Drop action carries the enumerated envelope',
              bad='ActorModel::actions: Drop does not carry the enumerated envelope')
    # Deliver only to existing actors
    def is_idx(v):
        v = noref(v)
        c = b.call_at(v.key) if v.kind == 'call' else None
        return c is not None and is_usize_from_id(c)

    def is_len(v):
        v = noref(v)
        c = b.call_at(v.key) if v.kind == 'call' else None
        return c is not None and c.is_('Vec::len') and noref(b.val(c.args[0])).fields()[-1:] == ('.actors',)
    lt = edges_where(b, is_idx, is_len, 'lt')
    okl = bool(lt) and all(b.edges_dominate(lt, i) for (i, st) in sites['Deliver'])
    ctx.check(okl, rule, 'deliver-only-to-existing-actor', b,
              good='Deliver is offered only when usize::from(dst) < actors.len()',
              bad='ActorModel::actions offers Deliver for destinations that are not actors of the model')
    # ordered: only the head of a channel (prev_channel guard) - the Deliver site is behind the
    # init_network test and the channel comparison
    okh = False
    for sw in b.switches:
        if sw.kind == 'variant' and noref(sw.on).fields()[-1:] == ('.init_network',):
            from common import comparisons
            ordered_blocks = b.reach([e[1] for e in sw.edges_for('Ordered')])
            fe = []
            cmp_ = []
            for (x_, y_, rel_, te_, fe_, bb_) in comparisons(b):
                cc = b.call_at(bb_)
                if cc is not None and cc.targs and 'Option<' in cc.targs[0] and bb_ in ordered_blocks and rel_ in ('eq', 'ne'):
                    cmp_.append(cc)
                    fe += fe_ if rel_ == 'eq' else te_       # edges on which prev_channel != current channel
            if cmp_:
                oth = sw.edges_not('Ordered')
                # the network kind may be cached in a flag before the loop (`let is_ordered = matches!(..)`)
                from common import variant_flags
                for l_, m_ in variant_flags(b, 'init_network').items():
                    ov = True if 'Ordered' in m_[True] else False if 'Ordered' in m_[False] else None
                    if ov is None:
                        continue
                    oth = oth + [e for s2 in b.switches if s2.kind == 'bool' and s2.on.kind == 'local' and s2.on.key == l_
                                 for e in s2.edges_for(not ov)]
                if fe and all(b.edges_dominate(fe + oth, i) for (i, st) in sites['Deliver']):
                    okh = True
    ctx.check(okh, rule, 'ordered-one-deliver-per-channel', b,
              good='on an ordered network at most one Deliver per (src, dst) channel is offered',
              bad='ActorModel::actions: the per-channel "queued behind previous" guard does not protect the '
                  'Deliver site')


def r8_names_and_parser_agree(ctx, F, rule='C07-R8'):
    """The network kind is usually selected by name (`"unordered_nonduplicating".parse()`): the table behind
    `Network::names()` (variant -> name) and the one behind `FromStr` (name -> constructor -> variant) are inverse."""
    nb = [x for x in F.bodies.values() if 'Network' in x.path and 'names' in x.path and x.path.endswith('::next')]
    fs = [x for x in F.bodies.values() if x.path.startswith('<actor::network::Network<') and
          x.path.endswith('FromStr>::from_str')]
    if len(nb) != 1 or len(fs) != 1:
        raise AnchorMissing('Network::names iterator / FromStr::from_str (found %d / %d)' % (len(nb), len(fs)))
    nb, fs = nb[0], fs[0]
    ctx.touched(nb)
    ctx.touched(fs)

    def lit(v):
        v = noref(v)
        if v.kind == 'const' and isinstance(v.key, str) and v.key.startswith('dbg:"'):
            return v.key[5:-1]
        return None
    # variant -> name
    names = {}
    sws = [sw for sw in nb.switches if sw.kind == 'variant' and
           set(l for (l, t) in sw.edges if isinstance(l, str)) >= {'Ordered', 'UnorderedDuplicating',
                                                                    'UnorderedNonDuplicating'}]
    if len(sws) != 1:
        raise AnchorMissing('Network::names: match on the network kind')
    for (lab, t) in sws[0].edges:
        if not isinstance(lab, str):
            continue
        # the arm's own blocks: the name may be yielded there (`Some("ordered")`) or picked there and yielded after
        # the arms have joined (`let (name, next) = match .. { Ordered(_) => ("ordered", ..), .. }; Some(name)`)
        lits = set()
        for (i, si, st) in nb.assigns(lambda st: st['rv']['k'] in ('agg', 'use')):
            if not nb.edges_dominate([(sws[0].bb, t)], i):
                continue
            ops_ = st['rv']['ops'] if st['rv']['k'] == 'agg' else [st['rv']['op']]
            for o_ in ops_:
                if o_.get('k') == 'const' and lit(nb.val(o_)) is not None:
                    lits.add(lit(nb.val(o_)))
        if len(lits) != 1:
            raise AnchorMissing('Network::names: one name for kind %s (found %s)' % (lab, sorted(lits)))
        names[lab] = next(iter(lits))

    def variant_of_ctor(path, depth=0):
        x = F.bodies.get(path)
        if x is None or depth > 3:
            return None
        vs = set(st['rv'].get('variant') for (i, si, st) in x.assigns(
            lambda st: st['rv']['k'] == 'agg' and st['rv'].get('adt') == 'actor::network::Network'))
        if len(vs) == 1:
            return next(iter(vs))
        for c in x.calls:
            if c.callee and c.callee.startswith(NET + 'new_') and c.callee != path:
                v = variant_of_ctor(c.callee, depth + 1)
                if v:
                    return v
        return None
    # name -> constructor -> variant
    parsed = {}
    for c in fs.calls:
        if not (c.short.endswith('str::traits::eq') or c.is_('PartialEq::eq', 'str::eq_ignore_ascii_case')):
            continue
        ls = [lit(fs.val(a)) for a in c.args[:2]]
        ls = [l for l in ls if l is not None]
        if len(ls) != 1:
            continue
        te = fs.branch(c, True)
        ctors = [k for k in fs.calls if k.callee and k.callee.startswith(NET + 'new_') and te and
                 fs.edges_dominate(te, k.bb)]
        if len(ctors) == 1:
            parsed[ls[0]] = variant_of_ctor(ctors[0].callee)
    if len(parsed) < 3:
        raise AnchorMissing('FromStr for Network: one constructor per compared name (resolved %d of 3)' % len(parsed))
    bad = sorted('"%s" parses to %s, which names() calls "%s"' % (n, v, names.get(v)) for n, v in parsed.items()
                 if names.get(v) != n)
    ctx.check(not bad and set(parsed.values()) == set(names), rule, 'names-and-parser-agree', fs,
              good='every name names() lists parses to the kind it names: %s' % sorted(parsed.items()),
              bad='Network: names() and FromStr disagree (%s): a model that selects its network by name runs on another '
                  'kind of network than the one selected' % bad)


def run(ctx):
    F = ctx.facts
    ctx.doc('C07-R8', 'names() (kind -> name) and FromStr (name -> constructor -> kind) are inverse tables')
    with ctx.rule('C07-R8', 'names'):
        r8_names_and_parser_agree(ctx, F)
    ctx.doc('C07-R1', 'every Iterator::next impl: each path that yields makes progress (store through self or '
                      '&mut self.* handed to a callee)')
    ctx.doc('C07-R2', 'per-variant effect kinds of on_deliver / on_drop / send (duplicating keeps vs removes; '
                      'deliver == drop on the other two; remove exactly one copy; send increments)')
    ctx.doc('C07-R3', 'ordered flows: push_back on send, front on read, order-preserving single removal; '
                      'actions() uses iter_deliverable')
    ctx.doc('C07-R4', 'Drop only under lossy_network == Yes and of the enumerated envelope; Deliver only for '
                      'dst < actors.len(); one Deliver per ordered channel')
    with ctx.rule('C07-R1', 'iterators'):
        r1_iterator_progress(ctx, F)
    with ctx.rule('C07-R2', 'network'):
        r2_effect_kinds(ctx, F)
    with ctx.rule('C07-R3', 'network'):
        r3_fifo(ctx, F)
        ring_buffer_views_complete(ctx, F)
    with ctx.rule('C07-R4', 'actions'):
        r4_actions(ctx, F)
    ctx.doc('C07-R5', 'Network::new_*: every element of `envelopes` is handed to Network::send (or to a constructor that does)')
    with ctx.rule('C07-R5', 'constructors'):
        r5_initial_contents(ctx, F)
    ctx.doc('C07-R6', 'NetworkIter over a non-duplicating network: an envelope held n times is yielded 1 + (n - 1) times '
                      '(cursor holds count - 1, only when count > 1, counted down by one to zero)')
    with ctx.rule('C07-R6', 'iter_all multiplicity'):
        r6_iter_multiplicity(ctx, F)
    ctx.doc('C07-R7', 'next_state hands `&mut network` only to on_deliver (Deliver arm) and on_drop (Drop arm); '
                      'process_commands only to send; no arm overwrites the network')
    with ctx.rule('C07-R7', 'who changes the network'):
        r7_who_changes_the_network(ctx, F)
    # "messages disappear undelivered only through explicit drop steps": a message that was sent is in the network -
    # whatever its destination (unknown id, crashed actor)
    import c06
    ctx.doc('C06-R3', 'process_commands: every Command::Send enters the network (Network::send on every path of the '
                      'Send arm), in emission order')
    with ctx.rule('C06-R3', 'process_commands'):
        c06.r3_commands(ctx, F)


def r6_iter_multiplicity(ctx, F, rule='C07-R6'):
    """iter_all over a non-duplicating network yields an envelope held n times exactly n times. The iterator
    keeps a cursor (envelope, copies left) next to the map iterator; counted per map entry, in terms of n:
    the call that fetches the entry yields one copy and leaves K = n - c copies in the cursor (only when the
    guard on n holds), every call that finds a cursor yields one copy and counts it down by one until it hits
    zero. So an entry is yielded 1 + K times, which is n exactly when c = 1 and the guard is n > 1 (affine
    counting over the two paths of next(); nothing is executed)."""
    from common import edges_where
    nx = [x for x in F.bodies.values() if x.kind != 'Closure' and
          re.match(r"^<actor::network::NetworkIter<.*> as std::iter::Iterator>::next$", x.path)]
    if len(nx) != 1:
        raise AnchorMissing('Iterator::next of NetworkIter (found %d)' % len(nx))
    ctx.touched(nx[0])
    b = F.norm(nx[0])
    sw = self_variant_switch(b)
    edges = sw.edges_for('UnorderedNonDuplicating')
    if not edges:
        raise AnchorMissing('%s: arm UnorderedNonDuplicating' % b.path)
    arm = b.reach([e[1] for e in edges])
    cur = [x for x in b.switches if x.bb in arm and x.kind == 'variant' and x.edges_for('Some') and x.edges_for('None')
           and noref(x.on).kind == 'arg' and 'as UnorderedNonDuplicating' in noref(x.on).projs]
    if len(cur) != 1:
        raise AnchorMissing('%s: the test of the copies-left cursor in the non-duplicating arm (found %d)' %
                            (b.path, len(cur)))
    cur = cur[0]
    cur_place = noref(cur.on)
    n_pre = len(cur_place.projs)

    def is_left(v):
        v = noref(v)
        return v.kind == 'arg' and tuple(v.projs[:n_pre]) == tuple(cur_place.projs) and \
            tuple(v.projs[n_pre:n_pre + 1]) == ('as Some',) and len(v.projs) > n_pre + 1

    def is_count(v):
        from taint import vals_of
        vs = vals_of(b, noref(v))

        def one(v):
            v = noref(v)
            c = b.call_at(v.key) if v.kind == 'call' else None
            return c is not None and c.is_('Iterator::next') and c.bb in arm and v.fields()[-1:] == ('.1',)
        return bool(vs) and all(one(x) for x in vs)

    def const(v, k):
        while v.kind == 'un':
            v = v.key[1]
        return v.kind == 'const' and v.key == k

    def minus_one(v, pred):
        v = noref(v)
        return v.kind == 'bin' and v.key[0] in ('Sub', 'SubWithOverflow', 'SubUnchecked') and pred(v.key[1]) and \
            const(v.key[2], 1)
    fresh = b.reach([e[1] for e in cur.edges_for('None')])
    active = b.reach([e[1] for e in cur.edges_for('Some')], cut_blocks=[cur.bb])
    # -- the fetching call: what is left in the cursor
    offs = []
    for (i, si, st) in b.assigns(lambda st: st['rv']['k'] == 'agg' and st['rv'].get('variant') == 'Some' and
                                 len(st['rv']['ops']) == 1):
        if i not in fresh or st['lhs']['l'] == 0:
            continue
        tv = b.val(st['rv']['ops'][0])
        if tv.kind != 'agg' or tv.key[0] != 'tuple':
            continue
        for comp in tv.key[3]:
            if is_count(comp):
                offs.append((i, 0))
            elif minus_one(comp, is_count):
                offs.append((i, 1))
    gt1 = edges_where(b, is_count, lambda v: const(v, 1), 'gt') + edges_where(b, is_count, lambda v: const(v, 2), 'ge')
    ok = bool(offs) and all(o == 1 for (i, o) in offs)
    ctx.check(ok, rule, 'fetch-leaves-count-minus-one', b,
              good='the call that yields the first copy of an entry leaves count - 1 copies in the cursor',
              bad='%s: the call that yields the first copy of an envelope held n times leaves %s copies in the cursor, '
                  'not n - 1: iter_all yields the envelope n + 1 times and disagrees with len() and the contents' %
                  (b.path, 'n' if offs else 'an unrecognised number of'))
    okg = bool(offs) and bool(gt1) and all(b.edges_dominate(gt1, i) for (i, o) in offs)
    ctx.check(okg, rule, 'cursor-only-for-more-than-one', b,
              good='a cursor is only left behind for an entry held more than once',
              bad='%s: a cursor is left behind although no copy is left (the guard is not `count > 1`): the next '
                  'call counts down from zero' % b.path)
    # -- the calls that find a cursor: one copy each, counted down by one, dropped at zero
    decs = [i for (i, si, st) in b.assigns(lambda st: bool(st['lhs']['p']))
            if i in active and is_left(b.place_val(st['lhs'])) and
            st['rv']['k'] in ('use', 'bin') and minus_one(
                b.val(st['rv']['op']) if st['rv']['k'] == 'use' else
                V('bin', (st['rv']['op'], b.val(st['rv']['a']), b.val(st['rv']['b']))), is_left)]
    resets = [i for (i, si, st) in b.assigns(lambda st: st['lhs']['p'] == ['deref'] and st['rv']['k'] == 'use')
              if i in active and noref(b.local_val(st['lhs']['l'])) == cur_place and
              b.val(st['rv']['op']).kind == 'agg' and b.val(st['rv']['op']).key[2] == 'None']
    okd = False
    if len(decs) == 1 and resets:
        d = decs[0]
        after = [(bb, es) for (bb, es) in edges_where(b, is_left, lambda v: const(v, 0), 'eq', with_blocks=True)
                 if bb in active and (bb == d or b.dominates(d, bb))]
        before = [(bb, es) for (bb, es) in edges_where(b, is_left, lambda v: const(v, 1), 'eq', with_blocks=True)
                  if bb in active and b.dominates(bb, d) and bb != d]
        for (bb, es) in after:
            if all(b.edges_dominate(es, r) for r in resets):
                okd = True
        for (bb, es) in before:
            if all(b.edges_dominate(es, r) for r in resets) and d not in b.reach([e[1] for e in es]):
                okd = True
    if not okd and not decs:
        # the cursor is rewritten as a whole: `*active = (left - 1 != 0).then_some((env, left - 1))`
        def option_defs(l, depth=0):
            out = []
            for d in [d for d in b.defs.get(l, []) if d[1] != 'call' and not d[2]['lhs']['p']]:
                rv = d[2]['rv']
                if rv['k'] == 'agg' and rv.get('adt', '').endswith('option::Option'):
                    out.append((d[0], rv))
                elif rv['k'] == 'use' and rv['op'].get('k') in ('copy', 'move') and not rv['op']['place']['p'] and depth < 4:
                    out += option_defs(rv['op']['place']['l'], depth + 1)
                else:
                    out.append((d[0], None))
            return out
        stores = [(i, st) for (i, si, st) in b.assigns(lambda st: st['lhs']['p'] == ['deref'] and st['rv']['k'] == 'use')
                  if i in active and noref(b.local_val(st['lhs']['l'])) == cur_place and
                  st['rv']['op'].get('k') in ('copy', 'move')]

        def is_next_left(v):
            return minus_one(v, is_left)
        more = edges_where(b, is_next_left, lambda v: const(v, 0), 'ne') + edges_where(b, is_left, lambda v: const(v, 1), 'ne') + \
            edges_where(b, is_left, lambda v: const(v, 1), 'gt')
        done = edges_where(b, is_next_left, lambda v: const(v, 0), 'eq') + edges_where(b, is_left, lambda v: const(v, 1), 'eq') + \
            edges_where(b, is_left, lambda v: const(v, 1), 'le')
        okd = bool(stores)
        seen_some = seen_none = False
        for (i, st) in stores:
            for (bb, rv) in option_defs(st['rv']['op']['place']['l']):
                if rv is None:
                    okd = False
                elif rv.get('variant') == 'None':
                    seen_none = True
                    okd = okd and bool(done) and b.edges_dominate(done, bb)
                else:
                    seen_some = True
                    tv = b.val(rv['ops'][0])
                    comps = tv.key[3] if tv.kind == 'agg' and tv.key[0] == 'tuple' else ()
                    okd = okd and any(is_next_left(c_) for c_ in comps) and bool(more) and b.edges_dominate(more, bb)
        okd = okd and seen_some and seen_none
    nones = [i for (i, si, st) in b.assigns(lambda st: st['lhs']['l'] == 0 and not st['lhs']['p'] and
                                            st['rv']['k'] == 'agg' and st['rv'].get('variant') == 'None') if i in active]
    ctx.check(okd and not nones, rule, 'cursor-counts-down-to-zero', b,
              good='every call that finds a cursor yields a copy, counts it down by one and drops it at zero',
              bad='%s: the copies-left cursor is not counted down by exactly one per yielded copy and dropped when it '
                  'reaches zero' % b.path)


def r7_who_changes_the_network(ctx, F, rule='C07-R7'):
    """Messages leave the network only by a delivery or an explicit drop, and enter it only by a send: in
    ActorModel::next_state the `&mut` of the next state's network goes to Network::on_deliver in the Deliver arm
    and to Network::on_drop in the Drop arm only (sends happen inside process_commands); no other arm - a crash,
    a timeout, a random choice - hands the network to anything that could change it, or overwrites it."""
    from actor_rules import NextState
    from common import stores_to_field
    ns = NextState(F)
    b = ns.b
    ctx.touched(b)
    allowed = {'Deliver': ('Network::on_deliver',), 'Drop': ('Network::on_drop',)}
    arms = {}
    for v in ns.variants:
        arms[v] = ns.arm(v)[0]
    if not {'Deliver', 'Drop', 'Crash', 'Timeout'} <= set(arms):
        raise AnchorMissing('next_state: arms %s' % sorted(arms))
    takers = []
    for c in b.calls:
        for a in c.args:
            if a.get('k') not in ('copy', 'move') or a['place']['p']:
                continue
            ty = b.locals[a['place']['l']]['ty']
            if re.match(r"^&(\'\w+ )?mut actor::network::Network<", ty):
                takers.append(c)
            elif re.match(r"^&(\'\w+ )?mut ", ty):
                # (part of) the network handed out mutably: a helper that was inlined, a field of the enum
                av = noref(b.trace(b.val(a), ('DerefMut::deref_mut', 'IndexMut::index_mut')))
                if '.network' in av.fields():
                    takers.append(c)
    stores = [i for (i, st) in stores_to_field(b, 'network')]
    for v in sorted(arms):
        exclusive = set(arms[v])
        for o in arms:
            if o != v:
                exclusive -= set(arms[o])
        bad = [c for c in takers if c.bb in exclusive and not c.is_(*allowed.get(v, ('\0never',)))]
        badst = [i for i in stores if i in exclusive]
        ctx.check(not bad and not badst, rule, 'network-untouched-or-own-operation@%s' % v, b,
                  good='the %s arm changes the network only through %s' % (v, list(allowed.get(v, ())) or 'nothing (sends '
                                                                            'go through process_commands)'),
                  bad='next_state: the %s arm hands `&mut network` to %s%s: messages appear or disappear in a step that '
                      'is neither a send, a delivery nor an explicit drop' %
                      (v, sorted(set(c.short for c in bad)), ' and overwrites the network' if badst else ''))
    # the operations exist where they belong
    ctx.check(any(c.bb in arms['Deliver'] and c.is_('Network::on_deliver') for c in takers) and
              any(c.bb in arms['Drop'] and c.is_('Network::on_drop') for c in takers), rule, 'deliver-and-drop-operate', b,
              good='Deliver consumes through on_deliver, Drop through on_drop',
              bad='next_state: the Deliver / Drop arm does not apply on_deliver / on_drop to the network')
    # and process_commands only sends
    import roles
    pc = roles.process_commands(F)
    ctx.touched(pc)
    pct = [c for c in pc.calls for a in c.args if a.get('k') in ('copy', 'move') and not a['place']['p'] and
           re.match(r"^&(\'\w+ )?mut actor::network::Network<", pc.locals[a['place']['l']]['ty'])]
    ctx.check(bool(pct) and all(c.is_('Network::send') for c in pct), rule, 'process-commands-only-sends', pc,
              good='process_commands changes the network only through Network::send',
              bad='process_commands hands `&mut network` to %s' % sorted(set(c.short for c in pct if not c.is_('Network::send'))))


EFFECT_RE = re.compile(r'(Hash|BTree)(able\w+)?(Set|Map)(::<.*>)?::(insert|entry|extend|get_mut|remove)$|'
                       r'Entry(::<.*>)?::(or_insert|or_insert_with|or_default|and_modify|insert_entry)$|'
                       r'VecDeque(::<.*>)?::(push_back|push_front|extend|insert)$|Extend::extend$|Iterator::collect$')


def effect_signature(b, blocks):
    """what a region does to a container, as a multiset of operation kinds: entry / or-insert (however the default
    is spelled) / insert / push_back ..., plus 'add-one' for `+= 1` on a stored count"""
    sig = Counter()
    for c in b.calls:
        if c.bb not in blocks:
            continue
        m = EFFECT_RE.search(c.short)
        if not m:
            continue
        name = c.short.split('::')[-1]
        if name in ('or_insert', 'or_insert_with', 'or_default'):
            name = 'or_insert*'
        sig[name] += 1
    for (i, si, st) in b.assigns(lambda st: st['rv']['k'] == 'bin' and st['rv']['op'] in ('Add', 'AddWithOverflow', 'AddUnchecked')):
        if i in blocks and st['rv']['b'].get('k') == 'const' and st['rv']['b'].get('val') == 1:
            sig['add-one'] += 1
    return sig


def r5_initial_contents(ctx, F, rule='C07-R5'):
    """Network::new_*: every initially present envelope enters the network the way a sent one does - each
    element of `envelopes` is handed to Network::send (or the constructor delegates to one that does), so an
    envelope listed twice is present twice on a non-duplicating network and queued in order on an ordered one."""
    from taint import origins
    ctors = [b for b in F.bodies.values() if b.kind != 'Closure' and
             re.match(r'^actor::network::Network::<Msg>::new_\w+$', b.path) and b.arg_count >= 1 and
             'IntoIterator' in b.locals[1]['ty']]
    if len(ctors) < 3:
        raise AnchorMissing('Network::new_* constructors taking envelopes (found %d)' % len(ctors))
    for b0 in ctors:
        ctx.touched(b0)
        b = F.norm(b0)
        ok = False
        how = ''
        built = set(st['rv'].get('variant') for (i, si, st) in b.assigns(
            lambda st: st['rv']['k'] == 'agg' and st['rv'].get('agg') == 'adt' and
            str(st['rv'].get('adt', '')).endswith('network::Network')))
        # a duplicating network holds a *set* of envelopes (send is `set.insert(envelope)`): putting every
        # element into that set, one by one or in bulk, is what send does
        set_like = built == {'UnorderedDuplicating'}
        for c in b.calls:
            if set_like and c.is_('Extend::extend', 'Iterator::collect', 'FromIterator::from_iter') and c.args and \
                    noref(b.trace(b.val(c.args[-1]), ('IntoIterator::into_iter',))) == V('arg', 1):
                ok, how = True, 'all of `envelopes` goes into the set of a duplicating network'
            if (c.is_('Network::send') or (set_like and re.search(r'Hash(ableHash)?Set(::<.*>)?::insert$', c.short)
                                           is not None)) and b.in_cycle(c.bb) and len(c.args) >= 2:
                heads = [h for h in b.calls_to('Iterator::next') if b.in_cycle(h.bb) and b.dominates(h.bb, c.bb)]
                if not heads:
                    continue
                head = max(heads, key=lambda h: len([1 for x in heads if b.dominates(x.bb, h.bb)]))
                org = origins(b, c.args[1])
                elem = bool(org) and all(isinstance(o, tuple) and o[0] == 'proj' and o[1] is head for o in org)
                src = noref(b.trace(b.val(head.args[0]), ('IntoIterator::into_iter',)))
                some = b.branch(head, 'Some')
                r = b.reach([e[1] for e in some], cut_blocks=[c.bb]) if some else {head.bb}
                if elem and src == V('arg', 1) and head.bb not in r and not c.is_('Network::send'):
                    # the set that is filled is the one the network is built from
                    recv = noref(b.trace(b.val(c.args[0]), ('DerefMut::deref_mut', 'Deref::deref')))
                    held = [noref(b.val(st['rv']['ops'][0])) for (i, si, st) in b.assigns(
                        lambda st: st['rv']['k'] == 'agg' and st['rv'].get('variant') == 'UnorderedDuplicating')]
                    if not held or any(h != recv for h in held):
                        continue
                if elem and src == V('arg', 1) and head.bb not in r:
                    ok, how = True, 'every element of `envelopes` is sent'
            elif re.search(r'Network::<Msg>::new_\w+$', c.callee) and c.callee != b0.path and c.args:
                if any(('arg', 1) in origins(b, a) for a in c.args if a.get('k') in ('copy', 'move')):
                    ok, how = True, 'delegates to %s' % c.callee.split('::')[-1]
        if not ok and len(built) == 1:
            # the constructor may do by hand what the `send` arm of the variant it builds does (sibling agreement):
            # a loop over `envelopes` whose body applies the same container operations as that arm, none skippable
            variant = next(iter(built))
            sb = F.norm(F.body('actor::network::Network::<Msg>::send'))
            ssw = self_variant_switch(sb)
            sedges = ssw.edges_for(variant)
            want = effect_signature(sb, sb.reach([e[1] for e in sedges])) if sedges else None
            for head in [h for h in b.calls_to('Iterator::next') if b.in_cycle(h.bb)]:
                if noref(b.trace(b.val(head.args[0]), ('IntoIterator::into_iter',))) != V('arg', 1):
                    continue
                some = b.branch(head, 'Some')
                body = b.reach([e[1] for e in some], cut_blocks=[head.bb]) if some else set()
                body.discard(head.bb)
                got = effect_signature(b, body)
                eff = [c for c in b.calls if c.bb in body and EFFECT_RE.search(c.short)]
                unskippable = bool(eff) and all(head.bb not in b.reach([e[1] for e in some], cut_blocks=[c.bb]) for c in eff)
                if want and got == want and unskippable:
                    ok, how = True, 'every element of `envelopes` gets the operations of the %s arm of send (%s)' % (
                        variant, ', '.join(sorted(want)))
        ctx.check(ok, rule, 'initial-envelopes-are-sent@%s' % b0.path.split('::')[-1], b0,
                  good='%s: %s' % (b0.path.split('::')[-1], how),
                  bad='%s does not hand every element of `envelopes` to Network::send: initially present messages '
                      'are not held the way sent ones are (copies of one envelope collapse, flows are not queued), so '
                      'they are not each delivered once or dropped explicitly' % b0.path)
