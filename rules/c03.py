"""C03 - every reported discovery is a genuine witness path (DESIGN.md section 4, C03)."""
from checkers import CB, EXHAUSTIVE, Spawn, is_arg, noref
from common import fmt_edges
from mir import AnchorMissing, V

LEVEL_TEXT = (
    'Static path/provenance rules over the four check loops and the Path constructors: the value '
    'recorded in `discoveries` is the dequeued job\'s own fingerprint (path) and the condition was '
    'evaluated on the same job\'s state; the terminal flag is false on every path that saw an '
    'in-boundary successor; an eventually counterexample is never written over an existing discovery '
    'once bit maintenance has stopped; simulation records eventually counterexamples only at a dead '
    'end or a closed cycle; Path values are only built by re-executing the model; parent pointers '
    'are the expanding job. Does not decide fingerprint collisions or model determinism.')

FLOORS = {'C03-R1': 12, 'C03-R2': 3, 'C03-R3': 4, 'C03-R4': 1, 'C03-R5': 6, 'C03-R6': 4, 'C03-R7': 1, 'C03-R8': 1, 'C11-R1': 14, 'C19-R6': 3}


# --------------------------------------------------------------------------------------------
def sim_path_local(cb):
    """local holding the simulation's fingerprint path: the Vec pushed with fingerprint(state)"""
    b = cb.b
    pushes = []
    for c in b.calls_to('Vec::push'):
        v = b.val(c.args[1])
        if v.kind == 'call':
            src = b.call_at(v.key)
            if src is not None and src.is_('fingerprint'):
                recv = noref(b.val(c.args[0]))
                pushes.append((c, src, recv))
    if len(pushes) != 1:
        raise AnchorMissing('%s: expected one push of fingerprint(state) onto the path, found %d'
                            % (b.path, len(pushes)))
    return pushes[0]


def r1_recorded_is_dequeued(ctx, cb, rule='C03-R1'):
    b = cb.b
    ctx.touched(b)
    from checkers import no_stray_evaluations
    no_stray_evaluations(ctx, cb, rule)
    # condition argument
    if cb.sim:
        push, fpcall, path_local = sim_path_local(cb)
        state_v = noref(b.val(fpcall.args[0]))
        for c in cb.cond_calls:
            ok = noref(b.val(c.args[1])) == state_v
            ctx.check(ok, rule, 'cond-state@%s' % role_of_cond(cb, c), b,
                      good='condition evaluated on the state whose fingerprint ends the path',
                      bad='SIM: property condition is evaluated on %r, not on the state %r whose '
                          'fingerprint was appended to the path' % (b.val(c.args[1]), state_v), span=c.span)
        for ins in cb.disc_inserts:
            # a copy of the path, however it is spelled (clone of the Vec, to_vec of a slice of it, ...)
            v = noref(b.trace(b.val(ins.args[2]), ('Clone::clone', 'slice::to_vec', 'ToOwned::to_owned', 'Deref::deref',
                                                   'Vec::as_slice', 'From::from', 'Into::into', 'AsRef::as_ref')))
            ok = v == path_local and b.dominates(push.bb, ins.bb) or \
                (v == path_local and ins in [x[0] for x in cb.ev_inserts])
            ctx.check(ok, rule, 'recorded@%s' % role_of_insert(cb, ins), b,
                      good='recorded discovery is a clone of the current fingerprint path',
                      bad='SIM: value recorded in discoveries is %r, not a clone of the path %r' % (v, path_local),
                      span=ins.span)
        # the path is only ever extended
        bad = [c for c in b.calls_to('Vec::pop', 'Vec::clear', 'Vec::truncate', 'Vec::remove', 'Vec::swap_remove',
                                     'Vec::insert')
               if noref(b.val(c.args[0])) == path_local]
        ctx.check(not bad, rule, 'path-append-only', b, good='fingerprint path is append-only',
                  bad='SIM: fingerprint path is modified other than by push: %s' % bad)
        return
    for c in cb.cond_calls:
        f = cb.job_field(b.val(c.args[1]))
        ctx.check(f == 0, rule, 'cond-state@%s' % role_of_cond(cb, c), b,
                  good='condition evaluated on field 0 (state) of the dequeued job',
                  bad='%s: property condition is evaluated on %r, not on the dequeued job\'s state'
                      % (cb.strat, b.val(c.args[1])), span=c.span)
    for ins in cb.disc_inserts:
        f = cb.job_field(b.val(ins.args[2]))
        ctx.check(f == 1, rule, 'recorded@%s' % role_of_insert(cb, ins), b,
                  good='recorded discovery is field 1 (fingerprint/path) of the dequeued job',
                  bad='%s: value recorded in discoveries derives from %r, not from the dequeued job\'s '
                      'own fingerprint(s): the reported path would not end in the witnessing state'
                      % (cb.strat, b.trace(b.val(ins.args[2]), ('Clone::clone',))), span=ins.span)


def role_of_cond(cb, c):
    for v in ('Always', 'Sometimes', 'Eventually'):
        if c in cb.cond_in_arm(v):
            return v
    return 'bb?'


def role_of_insert(cb, ins):
    b = cb.b
    if ins in [x[0] for x in cb.ev_inserts]:
        return 'eventually-terminal'
    if getattr(cb, 'merged', False) and b.dominates(cb.prop_loop.bb, ins.bb):
        vs = [v for v in ('Always', 'Sometimes', 'Eventually') if ins.bb in cb.cell(v)]
        return '+'.join(vs) if vs else 'other'
    for v in ('Always', 'Sometimes', 'Eventually'):
        for e in cb.arm_edges(v):
            if b.edges_dominate([e], ins.bb):
                return v
    return 'other'


# --------------------------------------------------------------------------------------------
def terminal_flag(cb):
    """(switch, local) of the bool flag guarding the eventually-insert."""
    b = cb.b
    for (ins, ec) in cb.ev_inserts:
        cands = []
        for sw in b.switches:
            if sw.kind == 'bool' and sw.on.kind == 'local' and b.locals[sw.on.key]['ty'] == 'bool':
                te = sw.edges_for(True)
                # a flag is set both ways by constant stores (a short-circuit temporary is not)
                vals = set(v for (_bb, _si, v) in b.const_stores(sw.on.key))
                if te and b.edges_dominate(te, ins.bb) and vals >= {0, 1}:
                    cands.append(sw)
        # innermost guard: the one dominated by all the others
        inner = [sw for sw in cands if all(b.dominates(o.bb, sw.bb) for o in cands)]
        if inner:
            return inner[0], inner[0].on.key
    return None, None


def r2_terminal_flag(ctx, cb, rule='C03-R2'):
    b = cb.b
    if not cb.ev_inserts:
        raise AnchorMissing('%s: eventually (terminal) discovery insert not found' % b.path)
    sw, fl = terminal_flag(cb)
    if sw is None:
        ctx.bad(rule, 'terminal-flag', b,
                '%s: the eventually-insert is not guarded by a boolean "terminal" flag: a state '
                'with in-boundary successors can be reported as the end of a counterexample' % cb.strat)
        return
    stores = b.const_stores(fl)
    s0 = set(bb for (bb, si, v) in stores if v == 0)
    starts = [e[1] for e in cb.wb_true]
    r = b.reach(starts, cut_blocks=s0)
    ok = sw.bb not in r and bool(s0)
    ctx.check(ok, rule, 'flag-false-after-in-boundary-successor', b,
              good='every path from within_boundary=true to the terminal test clears the flag '
                   '(stores at %s)' % sorted(s0),
              bad='%s: there is a path from an in-boundary successor to the terminal test (bb%d) on '
                  'which the terminal flag `%s` is never cleared: a non-terminal state is reported as '
                  'the end of an eventually counterexample' % (cb.strat, sw.bb, b.debug_name(fl)))
    # ... and only then: the flag is cleared for a successor that exists and lies inside the boundary. Clearing it
    # for an ignored action (next_state == None) or an out-of-boundary successor makes a state whose maximal
    # in-boundary path ends here look extendable, and its counterexample is silently dropped.
    wbt = list(cb.wb_true)
    early = sorted(bb for bb in s0 if not (wbt and b.edges_dominate(wbt, bb)))
    ctx.check(not early, rule, 'flag-cleared-only-for-in-boundary-successors', b,
              good='the terminal flag is cleared only after within_boundary(successor) returned true',
              bad='%s: the terminal flag `%s` is cleared at %s without a successor that passed within_boundary (an '
                  'ignored action, an out-of-boundary successor): a state that ends a maximal in-boundary path is not '
                  'treated as terminal and a genuine eventually-counterexample is lost' %
                  (cb.strat, b.debug_name(fl), early))
    # ... and for EVERY such successor: a successor that exists is put to the boundary test before the walk over the
    # actions goes on (a `continue` in front of the test - "this step changes nothing" - leaves the flag set although
    # the state has an in-boundary successor, namely itself)
    sc = getattr(cb, 'succ_call', None)
    some_s = b.branch(sc, 'Some') if sc is not None else []
    if some_s and cb.wb is not None:
        heads_ = [c for c in b.calls_to('Iterator::next') if b.in_cycle(c.bb) and b.dominates(c.bb, sc.bb)]
        inner = max(heads_, key=lambda c: len([1 for x in heads_ if b.dominates(x.bb, c.bb)])) if heads_ else None
        r_ = b.reach([e[1] for e in some_s], cut_blocks=[cb.wb.bb])
        skipped = inner is not None and inner.bb in r_
        ctx.check(not skipped, rule, 'every-successor-is-boundary-tested', b,
                  good='every successor that exists reaches the within_boundary test before the next action is tried',
                  bad='%s: a successor that exists can be passed over without the within_boundary test (the walk over '
                      'the actions continues first): the terminal flag stays set although the state has an '
                      'in-boundary successor, and a path that can be extended is reported as an eventually '
                      'counterexample' % cb.strat, span=sc.span)
    # the flag is (re)initialised to true only before the successor loop of the same job
    s1 = set(bb for (bb, si, v) in stores if v == 1)
    ok2 = all(b.dominates(bb, cb.actions.bb) for bb in s1) and bool(s1)
    ctx.check(ok2, rule, 'flag-true-only-at-expansion-start', b,
              good='flag is set to true only before Model::actions of the same job',
              bad='%s: terminal flag is set to true at %s, which does not precede the successor loop'
                  % (cb.strat, sorted(s1)))


# --------------------------------------------------------------------------------------------
def r3_no_overwrite(ctx, cb, rule='C03-R3'):
    """contradiction rule: bits stop being maintained once a discovery exists => the terminal
    insert must not overwrite an existing discovery."""
    b = cb.b
    stop = False
    for r in cb.eb_remove:
        for c in cb.disc_contains:
            fe = b.branch(c, False)
            if fe and b.edges_dominate(fe, r.bb):
                stop = True
    for (ins, ec) in cb.ev_inserts:
        # every pending eventually property gets its counterexample at this terminal state: after an insert the
        # property loop goes on (no way out of the loop body that does not pass through its head)
        # (the loop the insert sits in: it may walk the properties or the bits that are still set)
        heads = []
        for c in b.calls_to('Iterator::next'):
            if b.dominates(c.bb, ins.bb) and b.in_cycle(c.bb):
                some_ = b.branch(c, 'Some')
                if some_ and ins.bb in b.reach([e[1] for e in some_], cut_blocks=[c.bb]):
                    heads.append(c)
        if heads and ins.target is not None:
            head = max(heads, key=lambda c: len([1 for x in heads if b.dominates(x.bb, c.bb)]))
            after = b.reach([ins.target], cut_blocks=[head.bb])
            def straight_to_head(x):
                # the loop's header block(s) in front of the `next` call: a straight line into it
                for _ in range(6):
                    if x == head.bb:
                        return True
                    ss = list(b.succ[x])
                    if len(ss) != 1:
                        return False
                    x = ss[0]
                return False
            left = any(x in after for x in b.returns) or \
                any(x != head.bb and b.dominates(x, head.bb) and not straight_to_head(x) for x in after)
            ctx.check(not left, rule, 'terminal-loop-continues-after-insert', b,
                      good='after recording one property the terminal loop goes on to the next',
                      bad='%s: the terminal-state loop stops after the first eventually property it records: other '
                          'properties falsified by the same path get no counterexample (and have none elsewhere if '
                          'this is their only falsifying path)' % cb.strat, span=ins.span)
        if not stop:
            ctx.ok(rule, 'eventually-insert', b, 'bits are maintained unconditionally', span=ins.span)
            continue
        if ins.is_('Entry::or_insert', 'Entry::or_insert_with', 'VacantEntry::insert'):
            ctx.ok(rule, 'eventually-insert', b, 'terminal insert goes through the entry API '
                                                 '(insert-if-absent)', span=ins.span)
            continue
        # innermost property iteration that dominates the insert = the terminal loop
        heads = [c for c in cb.prop_next if b.dominates(c.bb, ins.bb)]
        if not heads:
            raise AnchorMissing('%s: terminal property loop not found' % b.path)
        head = max(heads, key=lambda c: len([1 for x in heads if b.dominates(x.bb, c.bb)]))
        some = b.branch(head, 'Some')
        guarded = False
        for c in cb.disc_contains:
            fe = b.branch(c, False)
            if fe and b.edges_dominate(fe, ins.bb, frm=[e[1] for e in some]):
                guarded = True
        ctx.check(guarded, rule, 'eventually-insert', b,
                  good='terminal eventually-insert is guarded by contains_key(discoveries)=false',
                  bad='%s: eventually bits stop being cleared for a property once it has a discovery '
                      '(IdSet::remove is skipped when contains_key is true), yet the terminal insert '
                      'at %s writes unconditionally: a later terminal state overwrites a genuine '
                      'counterexample with a path on which the condition WAS satisfied'
                      % (cb.strat, ins.span), span=ins.span)


def sw_true_edges(cb):
    sw, fl = terminal_flag(cb)
    if sw is None:
        # simulation: the tail loop follows the main loop; use the eventually contains test
        return [e for (ins, ec) in cb.ev_inserts
                for e in (cb.b.branch(ec, 'Some') if ec.is_('Iterator::next') else [(ec.bb, ec.target)])]
    return sw.edges_for(True)


# --------------------------------------------------------------------------------------------
def r4_sim_end(ctx, F, rule='C03-R4'):
    cb = CB(F, 'SIM')
    b = cb.b
    ctx.touched(b)
    if not cb.ev_inserts:
        raise AnchorMissing('SIM: eventually insert not found')
    # sanctioned edges
    actions_local = noref(b.val(cb.actions.args[2]))
    empties = [c for c in b.calls_to('Vec::is_empty') if noref(b.val(c.args[0])) == actions_local]
    if not empties:
        raise AnchorMissing('SIM: actions.is_empty() test not found')
    cut = []
    for c in empties:
        cut += b.branch(c, True)
    for (c, new, seen) in cb.arb:
        cut += seen
    # the recorded path ends WITH the state that closes the cycle: this state's fingerprint is appended to the path
    # before the revisit test that can leave the loop towards the eventually tail
    push, fpcall, path_local = sim_path_local(cb)
    okp = bool(cb.arb) and all(b.dominates(push.bb, c.bb) for (c, new, seen) in cb.arb)
    ctx.check(okp, rule, 'cycle-closing-state-is-on-the-path', b,
              good='the current state is appended to the path before the revisit test',
              bad='SIM: the revisit test can leave the trace loop before the current state was appended to the path: a '
                  'recorded counterexample that ends in a cycle lacks the state that closes it - its last state has an '
                  'in-boundary successor and repeats nothing, so it is not a witness', span=push.span)
    for (ins, ec) in cb.ev_inserts:
        r = b.reach([0], cut_edges=cut)
        ok = ins.bb not in r
        detail = ''
        if not ok:
            # name the offending exits: edges that leave the main loop towards the tail
            offenders = describe_offenders(cb, cut, ins)
            detail = ('SIM: the eventually-insert at %s is reachable without passing a sanctioned end '
                      '(no actions left / cycle closed); offending exits: %s. The recorded path can be '
                      'extended inside the boundary, i.e. it is not a counterexample' % (ins.span, offenders))
        ctx.check(ok, rule, 'eventually-insert-only-at-real-end', b,
                  good='eventually-insert reachable only via actions.is_empty() or a closed cycle '
                       '(cut %s)' % fmt_edges(cut), bad=detail, span=ins.span)


def describe_offenders(cb, cut, ins):
    b = cb.b
    out = []
    # candidate exits: the within_boundary=false edge, the "nothing awaited" flag edge
    for e in cb.wb_false:
        if ins.bb in b.reach([e[1]], cut_edges=cut) and cb.wb.bb not in b.reach([e[1]], cut_edges=cut):
            out.append('within_boundary=false (%s)' % cb.wb.span)
    for sw in b.switches:
        if sw.kind == 'bool' and sw.on.kind == 'local' and b.dominates(cb.prop_loop.bb, sw.bb):
            for (lab, t) in sw.edges:
                rr = b.reach([t], cut_edges=cut)
                if ins.bb in rr and cb.actions.bb not in rr and cb.wb.bb not in rr:
                    out.append('flag %s=%s at bb%d' % (b.debug_name(sw.on.key), lab, sw.bb))
    return out or ['(see replay)']


# --------------------------------------------------------------------------------------------
def r5_path_construction(ctx, F, rule='C03-R5'):
    import roles
    PATH = 'checker::path::Path'
    allowed = ('checker::path::Path::<State, Action>::from_fingerprints',
               'checker::path::Path::<State, Action>::from_actions')
    sites = []
    for body in F.bodies.values():
        for (bb, si, st) in body.assigns(lambda st: st['rv']['k'] == 'agg' and st['rv'].get('adt') == PATH):
            sites.append((body, st))
    if not sites:
        raise AnchorMissing('no construction site of %s found' % PATH)
    for body, st in sites:
        derived = body.j.get('derived', False)
        ok = body.path in allowed or derived
        ctx.check(ok, rule, 'construct-in:%s' % body.path, body,
                  good='Path constructed in a sanctioned constructor%s' % (' (derived impl)' if derived else ''),
                  bad='Path value constructed outside from_fingerprints/from_actions in %s: a path that '
                      'was not obtained by re-executing the model can be reported' % body.path,
                  span=st['span'])
    for p in allowed:
        with ctx.rule(rule, p):
            b = F.body(p)
            ctx.touched(b)
            bs = [b] + F.closures_under(b)
            inits = [c for x in bs for c in x.calls_to('Model::init_states')]
            steps = [c for x in bs for c in x.calls_to('Model::next_steps')]
            raw = [c for x in bs for c in x.calls_to('Model::next_state')]
            ctx.check(bool(inits) and bool(steps) and not raw, rule, 'producers', b,
                      good='states come from Model::init_states and Model::next_steps only',
                      bad='%s: state producers are not exactly init_states + next_steps (init=%d, '
                          'steps=%d, raw next_state=%d)' % (p, len(inits), len(steps), len(raw)))
    # discoveries() of every strategy goes through from_fingerprints / reconstruct_path
    for strat, pat in (('BFS', 'checker::bfs::BfsChecker'), ('DFS', 'checker::dfs::DfsChecker'),
                       ('OD', 'checker::on_demand::OnDemandChecker'),
                       ('SIM', 'checker::simulation::SimulationChecker')):
        with ctx.rule(rule, strat):
            b = F.body('<%s<M> as checker::Checker<M>>::discoveries' % pat)
            bs = [b] + F.closures_under(b)
            via = [c for x in bs for c in x.calls
                   if c.is_('Path::from_fingerprints') or roles.is_reconstruct_path_call(F, c)]
            ctx.check(bool(via), rule, 'discoveries-via-reexecution', b,
                      good='discoveries() maps fingerprints through %s' % (via[0].short if via else ''),
                      bad='%s::discoveries() does not rebuild paths by re-executing the model' % pat)
    for modname in ('bfs', 'on_demand'):
        with ctx.rule(rule, modname):
            b = roles.reconstruct_path(F, modname)
            ctx.check(len(b.calls_to('Path::from_fingerprints')) == 1, rule, 'reconstruct-via-from_fingerprints', b,
                      good='reconstruct_path ends in Path::from_fingerprints',
                      bad='reconstruct_path does not end in Path::from_fingerprints')


# --------------------------------------------------------------------------------------------
def r6_parent_pointers(ctx, F, rule='C03-R6'):
    for strat in ('BFS', 'OD'):
        with ctx.rule(rule, strat):
            cb = CB(F, strat)
            b = cb.b
            if not cb.vacant_inserts:
                raise AnchorMissing('%s: VacantEntry::insert not found' % strat)
            for c in cb.vacant_inserts:
                v = b.val(c.args[1])
                ok = False
                if v.kind == 'agg' and v.key[2] == 'Some' and v.key[3]:
                    ok = cb.job_field(v.key[3][0]) == 1
                ctx.check(ok, rule, 'parent-is-expanding-job', b,
                          good='generated[next] = Some(fingerprint of the dequeued job)',
                          bad='%s: parent pointer stored for a new state is %r, not Some(dequeued job\'s '
                              'fingerprint): reconstruct_path follows a non-predecessor' % (strat, v),
                          span=c.span)
            sp = Spawn(F, strat)
            # normal form (A12): seeds are inserted one by one, or collected as (fingerprint, parent) pairs
            from common import collected_elements
            from taint import origin_vals
            sn = F.norm(sp.b)
            parents = []
            for c in sn.calls_to('DashMap::insert'):
                if 'NonZero<u64>' in (c.targs[0] if c.targs else ''):
                    parents.append((c, origin_vals(sn, c.args[2]) if c.args[2].get('k') in ('copy', 'move')
                                    else {sn.val(c.args[2])}))
            for (y, el, col) in collected_elements(sn, lambda t: t.startswith('dashmap::DashMap<std::num::NonZero<u64>')):
                parents.append((y, origin_vals(sn, el, extra=[{'f': 1}])))
            if not parents:
                raise AnchorMissing('%s spawn: initial generated.insert not found' % strat)
            for c, vals in parents:
                ok = bool(vals) and all(v.kind == 'agg' and v.key[2] == 'None' for v in vals)
                ctx.check(ok, rule, 'init-parent-none', sp.b,
                          good='initial states have parent None',
                          bad='%s spawn: initial state inserted with parent %s' % (strat, sorted(repr(v) for v in vals)),
                          span=c.span)


def r7_sim_fresh_cycle_set(ctx, F, rule='C03-R7'):
    """a "cycle closed" conclusion is only valid if the visited set holds states of THIS trace only"""
    cb = CB(F, 'SIM')
    b = cb.b
    roots = set()
    for (c, new, seen) in cb.arb:
        roots.add(noref(b.val(c.args[0])))
    if len(roots) != 1:
        raise AnchorMissing('SIM: cycle-detection set is not a single value (%s)' % roots)
    root = next(iter(roots))
    first_ins = [c for (c, n_, s_) in cb.arb]
    ok = False
    why = ''
    if root.kind == 'call':
        c = b.call_at(root.key)
        ok = c is not None and c.is_('HashSet::new', 'HashSet::default', 'HashSet::with_capacity', 'Default::default') \
            and not b.in_cycle(c.bb) and all(b.dominates(c.bb, i.bb) for i in first_ins)
        why = 'the set is created per trace by %s' % (c.short if c else '?')
    elif root.kind in ('arg', 'local'):
        # handed in (or long-lived): it must be cleared on every path before the first use
        clears = [c for c in b.calls_to('HashSet::clear') if noref(b.val(c.args[0])) == root and not b.in_cycle(c.bb)]
        ok = bool(clears) and all(any(b.dominates(cl.bb, i.bb) for cl in clears) for i in first_ins)
        why = 'the set is cleared before the trace starts'
    ctx.check(ok, rule, 'cycle-set-fresh-per-trace', b,
              good='the cycle-detection set starts empty for every trace (%s)' % why,
              bad='SIM: the set used to detect "this trace closed a cycle" is not fresh for every trace (it is '
                  '%r and is not created/cleared before the first insert on every path): states left over '
                  'from an earlier, abandoned trace make a new trace "close a cycle" at once, and a path that '
                  'can be extended and revisits nothing is reported as an eventually counterexample' % root)


def run(ctx):
    F = ctx.facts
    ctx.doc('C03-R1', 'the value recorded in discoveries is the dequeued job\'s own fingerprint(s) and '
                      'the condition was evaluated on the same job\'s state')
    ctx.doc('C03-R2', 'the terminal flag is false on every path from an in-boundary successor to the '
                      'terminal test (cut-reachability over the flag\'s false-stores)')
    ctx.doc('C03-R3', 'contradiction rule: if eventually-bit clearing stops once a discovery exists, the '
                      'terminal eventually-insert must be guarded by contains_key=false')
    ctx.doc('C03-R4', 'simulation: after cutting the two sanctioned ends (no actions left, cycle closed) '
                      'the eventually-insert is unreachable from function entry')
    ctx.doc('C03-R5', 'Path values are constructed only in from_fingerprints/from_actions (or derived '
                      'impls), whose states come only from init_states/next_steps; discoveries() of every '
                      'strategy rebuilds paths through them')
    ctx.doc('C03-R6', 'parent pointer of a new state is Some(fingerprint of the expanding job); initial '
                      'states have None')
    for strat in ('BFS', 'DFS', 'OD', 'SIM'):
        with ctx.rule('C03-R1', strat):
            r1_recorded_is_dequeued(ctx, CB(F, strat))
        if strat != 'SIM':
            with ctx.rule('C03-R2', strat):
                r2_terminal_flag(ctx, CB(F, strat))
        with ctx.rule('C03-R3', strat):
            r3_no_overwrite(ctx, CB(F, strat))
    with ctx.rule('C03-R4', 'SIM'):
        r4_sim_end(ctx, F)
    with ctx.rule('C03-R5', 'Path'):
        r5_path_construction(ctx, F)
    ctx.doc('C03-R7', 'simulation: the per-trace cycle-detection set is created (or cleared) before its first use '
                      'on every path of a trace')
    with ctx.rule('C03-R7', 'SIM'):
        r7_sim_fresh_cycle_set(ctx, F)
    ctx.doc('C03-R8', 'simulation: the recorded / evaluated state itself passed within_boundary')
    with ctx.rule('C03-R8', 'SIM'):
        r8_sim_evaluated_state_in_boundary(ctx, F)
    r6_parent_pointers(ctx, F)
    # "no state on the path satisfies the condition" rests on the eventually bit of *that* property being the
    # one cleared when its condition holds: the bit bookkeeping of C11
    ctx.doc('C11-R1', 'eventually bits are set/cleared/tested by the position in Model::properties() (enumerate '
                      'directly over the properties slice), cleared only when the condition held, inherited by '
                      'successors')
    import c11
    c11.r1_bits(ctx, F)
    # "follows only transitions the model defines": every strategy labels the steps of a reported path with
    # Model::next_steps, so each listed action must be paired with its own successor
    import c19
    ctx.doc('C19-R6', 'Model::next_steps pairs every action with next_state(last_state, that action)')
    with ctx.rule('C19-R6', 'next_steps'):
        c19.r6_next_steps(ctx, F)


def r8_sim_evaluated_state_in_boundary(ctx, F, rule='C03-R8'):
    """Simulation has no filtered initial-state list: every state whose fingerprint is appended to the path
    and whose properties are evaluated - the chosen initial state included - must first have passed
    within_boundary. The test has to be of the trace's current state (the loop-carried variable), and its
    true edge has to dominate the path push and every condition call."""
    cb = CB(F, 'SIM')
    b = cb.b
    ctx.touched(b)
    push, fpcall, path_local = sim_path_local(cb)
    state_v = noref(b.val(fpcall.args[0]))
    wv = noref(b.val(cb.wb.args[1]))
    te = cb.wb_true
    same = wv == state_v
    guarded = bool(te) and b.edges_dominate(te, push.bb) and all(b.edges_dominate(te, c.bb) for c in cb.cond_calls)
    ctx.check(same and guarded, rule, 'evaluated-state-passed-boundary', b,
              good='the state that is recorded and evaluated is the one within_boundary accepted',
              bad='SIM: a state is appended to the path / evaluated without having passed within_boundary itself '
                  '(the boundary test is applied to %r, the evaluated state is %r%s): a trace can start in - and '
                  'report discoveries through - an initial state outside the boundary' %
                  (wv, state_v, '' if guarded else '; its true edge does not dominate the evaluation'))
