"""Thorough tier: type-level witnesses (compile_fail doc tests + compiling twins), the mutant
self-test battery of the property and the replay of the stored seeded changes."""
import glob
import json
import os
import re
import shutil
import subprocess
import sys
import tempfile

VERIF = os.path.dirname(os.path.dirname(os.path.abspath(__file__)))
CACHE = os.path.join(VERIF, '.cache')

WITNESSES = {
    'C03': ['W1PathCtorPrivate', 'W6FingerprintPrivate'],
    'C19': ['W1PathCtorPrivate'],
    'C07': ['W2NetworkMutatorsPrivate'],
    'C05': ['W3JobMarketPrivate'],
    'C10': ['W4SymmetryNeedsRepresentative'],
    'C04': ['W5CheckerNeedsHash', 'W6FingerprintPrivate'],
}
WITNESS_DOC = {
    'W1PathCtorPrivate': 'Path has a private field: paths can only come from re-executing the model',
    'W2NetworkMutatorsPrivate': 'Network::{send,on_deliver,on_drop} are crate-private',
    'W3JobMarketPrivate': 'the job_market module is crate-private',
    'W4SymmetryNeedsRepresentative': 'CheckerBuilder::symmetry requires State: Representative',
    'W5CheckerNeedsHash': 'Model::checker requires State: Hash (HashSet rejected, HashableHashSet accepted)',
    'W6FingerprintPrivate': 'fingerprint() is crate-private',
}


def sh(cmd, **kw):
    return subprocess.run(cmd, shell=True, stdout=subprocess.PIPE, stderr=subprocess.STDOUT, text=True, **kw)


def run_witnesses(ctx, pid, repo):
    names = WITNESSES.get(pid, [])
    if not names:
        return {}
    d = os.path.join(CACHE, 'witness')
    os.makedirs(d, exist_ok=True)
    shutil.rmtree(os.path.join(d, 'src'), ignore_errors=True)
    shutil.copytree(os.path.join(VERIF, 'witness', 'src'), os.path.join(d, 'src'))
    tmpl = open(os.path.join(VERIF, 'witness', 'Cargo.toml.tmpl')).read()
    open(os.path.join(d, 'Cargo.toml'), 'w').write(tmpl.replace('@REPO@', os.path.abspath(repo)))
    shutil.copy(os.path.join(repo, 'Cargo.lock'), os.path.join(d, 'Cargo.lock'))
    env = dict(os.environ, CARGO_NET_OFFLINE='true', CARGO_TARGET_DIR=os.path.join(CACHE, 'witness-target'))
    filt = ' '.join(names)
    r = sh('cargo +nightly test --doc --offline -- %s' % filt, cwd=d, env=env)
    res = {}
    for m in re.finditer(r'^test src/lib\.rs - (\w+) \(line (\d+)\)( - compile fail)? \.\.\. (\w+)', r.stdout, re.M):
        res.setdefault(m.group(1), []).append((int(m.group(2)), bool(m.group(3)), m.group(4)))
    out = {}
    for n in names:
        tests = res.get(n, [])
        rule = '%s-W' % pid
        ctx.doc(rule, 'type-level witness: the violating program is rejected with the stated error code '
                      '(compile_fail,E0xxx on nightly rustdoc) and its twin, differing only in the offending line, compiles')
        cf = [t for t in tests if t[1]]
        tw = [t for t in tests if not t[1]]
        ok = bool(cf) and bool(tw) and all(t[2] == 'ok' for t in tests)
        if not tests:
            ctx.bad(rule, n, 'witness/src/lib.rs', 'witness %s did not run (cargo output: %s)' % (n, r.stdout[-400:]))
        else:
            ctx.check(ok, rule, n, 'witness/src/lib.rs',
                      good='%s: %d compile_fail witness(es) rejected with the expected error, %d twin(s) compile' %
                           (WITNESS_DOC[n], len(cf), len(tw)),
                      bad='%s no longer holds at the type level: %s' %
                          (WITNESS_DOC[n], [(ln, 'compile_fail' if c else 'twin', s_) for (ln, c, s_) in tests]))
        out[n] = [{'line': ln, 'compile_fail': c, 'result': s_} for (ln, c, s_) in tests]
    return {'witnesses': out}


def run_selftest(pid, repo):
    """mutant battery + stored seeded changes for this property, against a scratch copy of repo"""
    sys.path.insert(0, os.path.join(VERIF, 'tools'))
    import importlib.util
    spec = importlib.util.spec_from_file_location('mutest', os.path.join(VERIF, 'tools', 'mutest.py'))
    mutest = importlib.util.module_from_spec(spec)
    # (registered under its name: the worker processes of run_parallel receive `mutest.run` by reference)
    sys.modules['mutest'] = mutest
    spec.loader.exec_module(mutest)
    mutest.REPO = repo
    ms = mutest.load(pid, None)
    for m in ms:
        m['props'] = [pid]
    # the battery is embarrassingly parallel (one scratch copy and target directory per worker)
    jobs = max(1, min(14, (os.cpu_count() or 2) - 2, len(ms)))
    if ms and jobs > 1:
        res = mutest.run_parallel(ms, jobs, verbose=False)
    else:
        res = mutest.run(ms, verbose=False) if ms else []
    summary = {'mutants': len(res), 'detected_or_silent_as_expected': len([r for r in res if r[1] == 'OK']),
               'not_applicable_to_this_tree': len([r for r in res if r[1] == 'SKIP']),
               'failed': [{'name': r[0], 'status': r[1], 'note': r[2][:200]} for r in res if r[1] not in ('OK', 'SKIP')]}
    # seeded changes kept under /verif/seeded whose meta says this property's check detects them
    seeds = []
    scratch = tempfile.mkdtemp(prefix='sr_seed_')
    evd = tempfile.mkdtemp(prefix='sr_seed_ev_')
    try:
        for meta_p in sorted(glob.glob(os.path.join(VERIF, 'seeded', '*', 'meta.json'))):
            meta = json.load(open(meta_p))
            if pid not in meta.get('detected_by', []):
                continue
            if any(m.get('patch', '').endswith('seeded/%s/patch.diff' % meta['name']) for m in ms):
                # already replayed above as an entry of mutants/seeds.json
                st_ = [r for r in res if r[0] == meta['name'] + '-replay']
                seeds.append({'seed': meta['name'], 'status': 'DETECTED' if st_ and st_[0][1] == 'OK' else
                              (st_[0][1] if st_ else 'NOT-RUN')})
                continue
            sh('rsync -a --delete --exclude target --exclude .git %s/ %s/' % (repo, scratch))
            patch = os.path.join(os.path.dirname(meta_p), 'patch.diff')
            r = sh('patch -p1 --no-backup-if-mismatch -s < %s' % patch, cwd=scratch)
            if r.returncode != 0:
                seeds.append({'seed': meta['name'], 'status': 'SKIP (patch does not apply to this tree)'})
                continue
            env = dict(os.environ, VERIF_EVIDENCE_DIR=evd, VERIF_TIER='quick')
            r = sh('%s/check %s --repo %s' % (VERIF, pid, scratch), env=env)
            seeds.append({'seed': meta['name'], 'status': 'DETECTED' if r.returncode == 1 else
                          ('BUILD-FAIL' if r.returncode == 2 else 'MISSED')})
    finally:
        shutil.rmtree(scratch, ignore_errors=True)
        shutil.rmtree(evd, ignore_errors=True)
    summary['seeded_replays'] = seeds
    return {'selftest': summary}


def thorough(ctx, pid, repo):
    extra = {}
    extra.update(run_witnesses(ctx, pid, repo))
    if os.environ.get('VERIF_NO_SELFTEST') != '1':
        try:
            st = run_selftest(pid, repo)
        except Exception as e:      # the self-test is about the checker, never a verdict about /repo
            print('SELFTEST-WARNING: %s: the self-test could not be run (%s: %s)' % (pid, type(e).__name__, e))
            st = {'selftest': {'mutants': 0, 'detected_or_silent_as_expected': 0, 'not_applicable_to_this_tree': 0,
                               'failed': [], 'seeded_replays': [], 'error': '%s: %s' % (type(e).__name__, e)}}
        extra.update(st)
        bad = st['selftest']['failed'] + [s for s in st['selftest']['seeded_replays'] if s['status'] == 'MISSED']
        for b in bad:
            print('SELFTEST-WARNING: %s: %s' % (pid, b))
    return extra
