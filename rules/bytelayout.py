"""Byte-layout abstract interpretation (analysis A14) for small integer/byte-array codecs.

A value is abstracted as the list of its bytes from most to least significant; each byte is a symbol
(('ip', j), ('port', j), ('id', k), ...), the constant 0, or '?' (unknown). The transfer functions cover
what such codecs are written with: `to_be_bytes` / `from_be_bytes` (and le / ne), array literals and
element stores, constant indexing and slice patterns, widening conversions, `<<` / `>>` by whole bytes,
`|`, `&` with byte masks, and `as` casts. Two functions are inverse on a field when the byte the
encoder writes a symbol to is the byte the decoder reads it from.
"""
import re

UNK = '?'


def width_of(ty):
    m = re.match(r'^(u|i)(8|16|32|64|128|size)$', ty or '')
    if m:
        return {'8': 1, '16': 2, '32': 4, '64': 8, '128': 16, 'size': 8}[m.group(2)]
    m = re.match(r'^\[u8; (\d+)(_usize)?\]$', ty or '')
    if m:
        return int(m.group(1))
    return None


class Layout:
    def __init__(self, b, sources):
        """sources: callable(call) -> list of byte symbols when `call` produces a primitive source
        (e.g. Ipv4Addr::octets, SocketAddrV4::port), or None"""
        self.b = b
        self.sources = sources
        self.memo = {}

    def local_ty(self, l):
        return self.b.locals[l]['ty']

    # ------------------------------------------------------------------
    def operand(self, o, depth=0):
        if o.get('k') == 'const':
            w = width_of(o.get('ty', '')) or 1
            v = o.get('val')
            if isinstance(v, int):
                return [(v >> (8 * (w - 1 - i))) & 0xff if ((v >> (8 * (w - 1 - i))) & 0xff) == 0 else ('const', (v >> (8 * (w - 1 - i))) & 0xff)
                        for i in range(w)]
            return [UNK] * w
        if o.get('k') in ('copy', 'move'):
            return self.place(o['place'], depth)
        return [UNK]

    def place(self, pl, depth=0):
        b = self.b
        base = self.local(pl['l'], depth)
        cur = base
        for e in pl['p']:
            if e == 'deref':
                continue
            if isinstance(e, dict) and ('index' in e or 'cindex' in e):
                if 'cindex' in e:
                    i = e['cindex']
                else:
                    v = b.local_val(e['index'])
                    i = v.key if v.kind == 'const' else None
                if i is None or cur is None or i >= len(cur):
                    return [UNK]
                cur = [cur[i]]
            elif isinstance(e, dict) and 'f' in e:
                # a newtype field (`id.0`) keeps the layout
                continue
            else:
                return [UNK] * (len(cur) if cur else 1)
        return cur

    def local(self, l, depth=0):
        if l in self.memo:
            return self.memo[l]
        b = self.b
        w = width_of(self.local_ty(l)) or 1
        if depth > 40:
            return [UNK] * w
        self.memo[l] = [UNK] * w
        if 1 <= l <= b.arg_count and not [d for d in b.defs.get(l, []) if d[1] == 'call' or not d[2]['lhs']['p']]:
            res = self.sources(('arg', l)) or [UNK] * w
            self.memo[l] = res
            return res
        whole = [d for d in b.defs.get(l, []) if d[1] == 'call' or not d[2]['lhs']['p']]
        part = [d for d in b.defs.get(l, []) if d[1] != 'call' and d[2]['lhs']['p']]
        res = None
        if len(whole) == 1:
            d = whole[0]
            if d[1] == 'call':
                res = self.call(b.call_at(d[0]), depth + 1)
            else:
                res = self.rvalue(d[2]['rv'], w, depth + 1)
        if res is None:
            res = [UNK] * w
        # element stores `arr[i] = x` on top of the initial value
        if part:
            res = list(res)
            for d in part:
                p = d[2]['lhs']['p']
                e = p[-1]
                i = None
                if isinstance(e, dict) and 'cindex' in e:
                    i = e['cindex']
                elif isinstance(e, dict) and 'index' in e:
                    v = b.local_val(e['index'])
                    i = v.key if v.kind == 'const' else None
                if i is None or i >= len(res) or len(p) != 1:
                    res = [UNK] * len(res)
                    break
                val = self.rvalue(d[2]['rv'], 1, depth + 1)
                res[i] = val[0] if val and len(val) == 1 else UNK
        self.memo[l] = res
        return res

    def rvalue(self, rv, w, depth):
        k = rv['k']
        if k == 'use':
            return self.operand(rv['op'], depth)
        if k == 'cast':
            src = self.operand(rv['op'], depth)
            if len(src) >= w:
                return src[len(src) - w:]          # truncation keeps the low bytes
            return [0] * (w - len(src)) + src      # zero extension (unsigned codecs)
        if k == 'agg' and rv.get('agg') == 'array':
            out = []
            for o in rv['ops']:
                v = self.operand(o, depth)
                out.append(v[0] if len(v) == 1 else UNK)
            return out
        if k == 'repeat':
            v = self.operand(rv['op'], depth)
            return [v[0] if len(v) == 1 else UNK] * w
        if k == 'bin':
            a, c = self.operand(rv['a'], depth), self.operand(rv['b'], depth)
            op = rv['op']
            if op in ('Shl', 'ShlUnchecked', 'Shr', 'ShrUnchecked'):
                n = rv['b'].get('val') if rv['b'].get('k') == 'const' else None
                if n is None:
                    bv = self.b.val(rv['b'])
                    n = bv.key if bv.kind == 'const' else None
                if not isinstance(n, int) or n % 8:
                    return [UNK] * len(a)
                s = n // 8
                if op.startswith('Shl'):
                    return (a + [0] * s)[-len(a):] if s else a
                return ([0] * s + a)[:len(a)] if s else a
            if op in ('BitOr', 'BitXor', 'Add', 'AddUnchecked', 'AddWithOverflow'):
                if len(a) != len(c):
                    return [UNK] * max(len(a), len(c))
                return [y if x == 0 else x if y == 0 else UNK for x, y in zip(a, c)]
            if op == 'BitAnd':
                if len(a) != len(c):
                    return [UNK] * max(len(a), len(c))
                out = []
                for x, y in zip(a, c):
                    if x == 0 or y == 0:
                        out.append(0)
                    elif y == ('const', 0xff):
                        out.append(x)
                    elif x == ('const', 0xff):
                        out.append(y)
                    else:
                        out.append(UNK)
                return out
        return [UNK] * w

    def call(self, c, depth):
        if c is None:
            return None
        src = self.sources(c)
        if src is not None:
            return src
        m = re.search(r'<impl (u\d+|usize)>::(to|from)_(be|le|ne)_bytes$', c.callee)
        if m:
            v = self.operand(c.args[0], depth)
            return v if m.group(3) != 'le' else list(reversed(v))
        w = width_of(self.local_ty(c.dest['l'])) or 1
        if c.is_('From::from', 'Into::into', 'TryFrom::try_from') and c.args:
            src = self.operand(c.args[0], depth)
            if width_of(self.local_ty(c.dest['l'])) is not None:
                if len(src) >= w:
                    return src[len(src) - w:]
                return [0] * (w - len(src)) + src
        return [UNK] * w
