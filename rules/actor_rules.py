"""Role resolution for ActorModel::{next_state, actions, init_states, process_commands}."""
from mir import AnchorMissing, V

NS = '<actor::model::ActorModel<A, C, H> as Model>::next_state'
ACTIONS = '<actor::model::ActorModel<A, C, H> as Model>::actions'
INIT = '<actor::model::ActorModel<A, C, H> as Model>::init_states'
PC = 'actor::model::ActorModel::<A, C, H>::process_commands'
FORMAT_STEP = '<actor::model::ActorModel<A, C, H> as Model>::format_step'
STATE = 'actor::model_state::ActorModelState'

HANDLERS = {'Deliver': 'Actor::on_msg', 'Timeout': 'Actor::on_timeout', 'SelectRandom': 'Actor::on_random'}
ALL_HANDLERS = ('Actor::on_msg', 'Actor::on_timeout', 'Actor::on_random', 'Actor::on_start')
ID_FIELD = {'Deliver': '.dst', 'Timeout': '.0', 'Crash': '.0', 'SelectRandom': '.actor'}


def noref(v):
    return V(v.kind, v.key, [p for p in v.projs if p not in ('ref', 'deref')])


def is_usize_from_id(c):
    # usize::from(id), <usize as From<Id>>::from(id), id.into() with the target inferred as usize
    return 'From<actor::Id> for usize' in c.callee or (c.is_('From::from') and c.targs[:2] == ['usize', 'actor::Id']) or \
        (c.is_('Into::into') and c.targs[:2] == ['actor::Id', 'usize'])


class NextState:
    def __init__(self, F, path=NS):
        self.F = F
        self.b = F.body(path, 'ActorModel::next_state')
        b = self.b
        # the action parameter: the by-value enum argument
        self.p_action = None
        for i in range(1, b.arg_count + 1):
            if b.locals[i]['head'].endswith('ActorModelAction'):
                self.p_action = i
        if self.p_action is None:
            raise AnchorMissing('%s: action parameter' % b.path)
        self.p_state = None
        for i in range(1, b.arg_count + 1):
            if b.locals[i]['head'].endswith('ActorModelState') and b.locals[i]['ty'].startswith('&'):
                self.p_state = i
        sws = [sw for sw in b.switches if sw.kind == 'variant' and noref(sw.on) == V('arg', self.p_action)]
        sws = [s_ for s_ in sws if not any(o is not s_ and b.dominates(o.bb, s_.bb) for o in sws)]
        if len(sws) != 1:
            raise AnchorMissing('%s: match on the action' % b.path)
        self.sw = sws[0]
        self.variants = [l for (l, t) in self.sw.edges if isinstance(l, str)]

    def arm(self, variant):
        """blocks of the arm (reachable from its edge)"""
        b = self.b
        edges = self.sw.edges_for(variant)
        if not edges:
            raise AnchorMissing('%s: arm for %s' % (b.path, variant))
        return b.reach([e[1] for e in edges]), edges

    def calls_in(self, variant, *pats):
        blocks, edges = self.arm(variant)
        return [c for c in self.b.calls if c.bb in blocks and (not pats or c.is_(*pats))]

    def some_returns(self, variant=None):
        """blocks that assign `_0 = Some(..)`"""
        b = self.b
        out = []
        blocks = None
        if variant is not None:
            blocks, _ = self.arm(variant)
        for (i, si, st) in b.assigns(lambda st: st['lhs']['l'] == 0 and not st['lhs']['p'] and
                                     st['rv']['k'] == 'agg' and st['rv'].get('variant') == 'Some'):
            if blocks is None or i in blocks:
                out.append((i, st))
        return out

    def none_returns(self, variant=None):
        b = self.b
        out = []
        blocks = None
        if variant is not None:
            blocks, _ = self.arm(variant)
        for (i, si, st) in b.assigns(lambda st: st['lhs']['l'] == 0 and not st['lhs']['p'] and
                                     st['rv']['k'] == 'agg' and st['rv'].get('variant') == 'None'):
            if blocks is None or i in blocks:
                out.append((i, st))
        # `expr?` returns None through FromResidual::from_residual
        for c in b.calls_to('FromResidual::from_residual'):
            if c.dest['l'] == 0 and not c.dest['p'] and (blocks is None or c.bb in blocks):
                out.append((c.bb, c.t))
        return out

    def action_id(self, variant):
        """value of the acting actor's id in this arm"""
        return V('arg', self.p_action, ('as ' + variant, ID_FIELD[variant]))

    def index_calls(self, variant):
        """usize::from(action id) calls of the arm"""
        return [c for c in self.calls_in(variant) if is_usize_from_id(c)]


def pc_calls(F, body, blocks=None):
    """calls of ActorModel::process_commands (looked up by role) in body, optionally within blocks"""
    import roles
    path = roles.process_commands(F).path
    return [c for c in body.calls if c.callee == path and (blocks is None or c.bb in blocks)]
