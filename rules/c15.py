"""C15 - actor adapters are transparent to the actor they wrap."""
from actor_rules import noref
from mir import AnchorMissing, V

LEVEL_TEXT = (
    'Static sibling/provenance rules over every impl of Actor that forwards to a wrapped actor '
    '(Choice<A, Never>, Choice<A1, A2>, RegisterActor, WORegisterActor, ordered_reliable_link::'
    'ActorWrapper): all five trait items are provided and forwarded under the same self-variants; the '
    'inner call receives the outer id/src/msg/timer/random unchanged and a Cow borrowed from the inner '
    'part of the outer state; whenever the inner Cow comes back Owned the outer state is overwritten '
    'with the same variant on every path, and the inner commands are appended on every path. The '
    'scripted Vec client sends and advances on exactly the same paths. Behavioural isomorphism itself '
    'is not decided.')

FLOORS = {'C15-R1': 20, 'C15-R2': 30, 'C15-R3': 3, 'C06-R6': 13}

HANDLERS = ('on_start', 'on_msg', 'on_timeout', 'on_random', 'name')
# (impl self type prefix, handler) -> reason
R1_EXCEPTIONS = {
    ('actor::ordered_reliable_link::ActorWrapper', 'on_random'):
        'ordered_reliable_link rejects Command::ChooseRandom with todo!() - random choices are '
        'documented as unsupported, so there is nothing to forward',
}
# positional index of the pass-through arguments per handler: inner-call arg index -> outer arg index
PASS = {
    'on_msg': {1: 2, 3: 4, 4: 5},
    'on_timeout': {1: 2, 3: 4},
    'on_random': {1: 2, 3: 4},
    'on_start': {1: 2},
}
OUT_ARG = {'on_start': 3, 'on_msg': 6, 'on_timeout': 5, 'on_random': 5}


def forwarding_calls(b):
    return [c for c in b.calls if c.callee in ('actor::Actor::' + h for h in HANDLERS)]


def adapters(F):
    out = []
    for im in F.impls_of('Actor'):
        if im.get('trait') != 'actor::Actor':
            continue
        bodies = {}
        for it in im['provided']:
            if it['is_fn'] and it['path'] in F.bodies:
                bodies[it['name']] = F.bodies[it['path']]
        if any(forwarding_calls(b) for b in bodies.values()):
            out.append((im, bodies))
    return out


def self_variants_of(b, call):
    """labels of the self-variant edges that dominate `call` ('*' when self is not matched on)"""
    labs = set()
    for sw in b.switches:
        if sw.kind != 'variant':
            continue
        on = noref(b.agg_field(sw.on))
        if not (on.kind == 'arg' and on.key == 1 and not on.fields()):
            continue
        for (lab, t) in sw.edges:
            if isinstance(lab, str) and b.edges_dominate([(sw.bb, t)], call.bb):
                labs.add(lab)
    return labs or {'*'}


def run(ctx):
    F = ctx.facts
    ctx.doc('C15-R1', 'every Actor impl that forwards to a wrapped actor provides and forwards on_start, on_msg, '
                      'on_timeout, on_random and name, under the same self-variants')
    ctx.doc('C15-R2', 'pass-through: inner call gets the outer id/src/msg/timer/random and a Cow borrowed from '
                      'the inner state; Owned => outer state overwritten with the same variant on every path; '
                      'Out::append on every path after the inner call')
    ctx.doc('C15-R3', 'Vec<(Id, Msg)> client: send and index increment on exactly the same paths; on_start '
                      'sends first() only')
    ads = adapters(F)
    if len(ads) < 5:
        ctx.bad('C15-R1', 'adapter-discovery', 'crate', 'expected >= 5 adapter impls of Actor, found %d' % len(ads))
    for im, bodies in ads:
        selfty = im['self']
        short_self = selfty.split('<')[0]
        base = None
        for h in HANDLERS:
            role = '%s::%s' % (selfty, h)
            exc = R1_EXCEPTIONS.get((short_self, h))
            b = bodies.get(h)
            if b is None:
                if exc:
                    ctx.ok('C15-R1', role, im['path'], 'exception: ' + exc, span=im['span'])
                else:
                    ctx.bad('C15-R1', role, im['path'],
                            'impl Actor for %s does not provide %s: the trait default (a no-op) is used, so '
                            '%s events never reach the wrapped actor' % (selfty, h, h), span=im['span'])
                continue
            ctx.touched(b)
            fw = [c for c in forwarding_calls(b) if c.callee == 'actor::Actor::' + h]
            if not fw:
                if exc:
                    ctx.ok('C15-R1', role, b, 'exception: ' + exc)
                else:
                    ctx.bad('C15-R1', role, b, '%s::%s does not call the wrapped actor\'s %s' % (selfty, h, h))
                continue
            labs = set()
            for c in fw:
                labs |= self_variants_of(b, c)
            if base is None:
                base = (h, labs)
                ctx.ok('C15-R1', role, b, 'forwards %s under self-variants %s' % (h, sorted(labs)))
            else:
                ctx.check(labs == base[1], 'C15-R1', role, b,
                          good='forwards %s under the same self-variants %s' % (h, sorted(labs)),
                          bad='%s::%s forwards under self-variants %s but %s forwards under %s: some wrapped '
                              'actor never receives %s events' % (selfty, h, sorted(labs), base[0],
                                                                   sorted(base[1]), h))
            if h == 'name':
                continue
            if short_self == 'actor::ordered_reliable_link::ActorWrapper':
                # the link adds sequencing state of its own; only id pass-through is required here
                for c in fw:
                    ctx.check(noref(b.val(c.args[1])) == V('arg', 2), 'C15-R2', role + ':id', b,
                              good='inner %s receives the outer id' % h,
                              bad='%s::%s passes %r as id to the wrapped actor' % (selfty, h, b.val(c.args[1])))
                continue
            for c in fw:
                var = sorted(self_variants_of(b, c))[0]
                tag = '%s[%s]' % (role, var)
                # (a) argument pass-through
                for ai, oi in PASS[h].items():
                    v = noref(b.val(c.args[ai]))
                    ctx.check(v == V('arg', oi), 'C15-R2', '%s:arg%d' % (tag, ai), b,
                              good='inner %s argument %d is the outer argument %d' % (h, ai, oi),
                              bad='%s::%s passes %r (not its own parameter %d) as argument %d of the wrapped '
                                  'actor\'s %s' % (selfty, h, v, oi, ai, h), span=c.span)
                # (b) append of the inner commands on every path after the call
                outv = noref(b.val(c.args[-1]))
                apps = [a for a in b.calls_to('Out::append')
                        if noref(b.val(a.args[0])) == V('arg', OUT_ARG[h]) and noref(b.val(a.args[1])) == outv]
                # ... or moved over as a whole: `o.0.extend(inner_out)` / `o.0.append(&mut inner_out.0)`
                for a in b.calls_to('Extend::extend', 'Vec::extend', 'Vec::append'):
                    if len(a.args) < 2:
                        continue
                    dstv = noref(b.trace(b.val(a.args[0]), ('DerefMut::deref_mut',)))
                    srcv = noref(b.trace(b.val(a.args[1]), ('IntoIterator::into_iter', 'DerefMut::deref_mut')))
                    if dstv.kind == 'arg' and dstv.key == OUT_ARG[h] and dstv.fields() == ('.0',) and \
                            V(srcv.kind, srcv.key) == V(outv.kind, outv.key) and srcv.fields() in ((), ('.0',)):
                        apps.append(a)
                r = b.reach([c.target], cut_blocks=[a.bb for a in apps])
                ctx.check(bool(apps) and not any(x in r for x in b.returns), 'C15-R2', tag + ':append', b,
                          good='the wrapped actor\'s commands are appended to the outer Out on every path',
                          bad='%s::%s can return without appending the wrapped actor\'s commands to its own '
                              'output' % (selfty, h), span=c.span)
                # (b1) ... unchanged: between the wrapped handler and the append nothing else gets a mutable borrow
                # of the inner Out (no filtering, truncation or reordering of the wrapped actor's commands)
                ol = None
                a_last = c.args[-1]
                cur = a_last['place']['l'] if a_last['k'] in ('copy', 'move') and not a_last['place']['p'] else None
                for _ in range(4):          # `_t = &mut *_r; _r = &mut inner_out`
                    ds = [d for d in b.defs.get(cur, []) if d[1] != 'call' and d[2]['rv']['k'] == 'ref'] \
                        if cur is not None else []
                    if len(ds) != 1:
                        break
                    pl_ = ds[0][2]['rv']['place']
                    cur = pl_['l']
                    if not pl_['p']:
                        ol = cur
                        break
                if ol is not None:
                    after_c = b.reach([c.target])
                    app_bbs = set(a.bb for a in apps)
                    refs = list(b.assigns(lambda st: st['rv']['k'] == 'ref' and st['rv'].get('mut')))
                    borrows = {}
                    for (i, si, st) in refs:
                        if st['rv']['place']['l'] == ol:
                            borrows[st['lhs']['l']] = i
                    for _ in range(4):
                        for (i, si, st) in refs:
                            if st['rv']['place']['l'] in borrows and st['lhs']['l'] not in borrows:
                                borrows[st['lhs']['l']] = i
                    touched = []
                    for c2 in b.calls:
                        if c2 is c or c2.bb in app_bbs or c2.bb not in after_c:
                            continue
                        if any(a['k'] in ('copy', 'move') and a['place']['l'] in borrows and
                               borrows[a['place']['l']] in after_c for a in c2.args):
                            touched.append('%s@%s' % (c2.short.split('::')[-1], c2.span))
                    ctx.check(not touched, 'C15-R2', tag + ':commands-unchanged', b,
                              good='the wrapped actor\'s commands are not modified before they are appended',
                              bad='%s::%s modifies the wrapped actor\'s commands before appending them (%s): the '
                                  'wrapped system emits other commands than the actor alone would' %
                                  (selfty, h, sorted(set(touched))), span=c.span)
                if h == 'on_start':
                    continue
                # (b2) every event of this kind reaches the wrapped actor: with `self` and the state being this
                # variant, no path to the exit avoids the forwarding call (no arm that swallows some messages)
                cons = []
                for root_arg in (1, 3):
                    sws_ = [sw for sw in b.switches if sw.kind == 'variant' and
                            noref(b.trace(noref(b.agg_field(sw.on)), ('Deref::deref',))).kind == 'arg' and
                            noref(b.trace(noref(b.agg_field(sw.on)), ('Deref::deref',))).key == root_arg and
                            not noref(b.trace(noref(b.agg_field(sw.on)), ('Deref::deref',))).fields()]
                    labs_ = set()
                    for sw in sws_:
                        for (lab, t) in sw.edges:
                            if isinstance(lab, str) and b.edges_dominate([(sw.bb, t)], c.bb):
                                labs_.add(lab)
                    if len(labs_) == 1:
                        cons.append((sws_, next(iter(labs_))))
                rr = b.reach_under(cons, [0], cut_blocks=[c.bb])
                ctx.check(not any(x in rr for x in b.returns), 'C15-R2', tag + ':every-event-forwarded', b,
                          good='every %s event of this variant is handed to the wrapped actor' % h,
                          bad='%s::%s can return without calling the wrapped actor\'s %s although self and the state '
                              'are the %s variant: some events never reach the wrapped actor, so the wrapped system '
                              'behaves differently from the unwrapped one' % (selfty, h, h, var), span=c.span)
                # (c) inner state is a Cow::Borrowed of the inner part of the outer state
                sv = b.val(c.args[2])
                sv2 = noref(sv)
                okb = False
                cow_local = None
                a2 = c.args[2]
                if sv.kind == 'agg' and sv.key[1] == 'std::borrow::Cow' and sv.key[2] == 'Borrowed':
                    inner = noref(b.trace(sv.key[3][0], ('Deref::deref', 'Choice::get')))
                    inner = noref(b.agg_field(inner))
                    inner = noref(b.trace(inner, ('Deref::deref', 'Choice::get')))
                    okb = inner.kind == 'arg' and inner.key == 3
                ctx.check(okb, 'C15-R2', tag + ':inner-state', b,
                          good='the wrapped actor works on a Cow borrowed from the inner part of the outer state',
                          bad='%s::%s hands %r to the wrapped actor instead of a borrow of the inner state' %
                              (selfty, h, sv), span=c.span)
                # (d) Owned => outer state overwritten, same variant, on every path
                sws = [sw for sw in b.switches if sw.kind == 'variant' and noref(sw.on) == noref(sv) and
                       b.dominates(c.bb, sw.bb)]
                sws = [s_ for s_ in sws if not any(o is not s_ and b.dominates(o.bb, s_.bb) for o in sws)]
                if not sws:
                    ctx.bad('C15-R2', tag + ':owned-propagates', b,
                            '%s::%s never inspects whether the wrapped actor replaced its state' % (selfty, h),
                            span=c.span)
                    continue
                oe = sws[0].edges_for('Owned')
                stores = []
                for (i, si, st) in b.assigns(lambda st: st['lhs']['p'] == ['deref'] and st['lhs']['l'] == 3):
                    stores.append((i, st))
                after = b.reach([e[1] for e in oe])
                # (the write-back may be shared by both arms behind a join: being after this arm's Owned edge is
                # what matters, not being dominated by this arm's call)
                stores = [(i, st) for (i, st) in stores if i in after]
                r = b.reach([e[1] for e in oe], cut_blocks=[i for (i, st) in stores])
                ctx.check(bool(stores) and bool(oe) and not any(x in r for x in b.returns), 'C15-R2',
                          tag + ':owned-propagates', b,
                          good='an Owned inner state always replaces the outer state',
                          bad='%s::%s can return after the wrapped actor produced a new (Owned) state without '
                              'storing it into the outer state: the transition is lost or looks like a no-op'
                              % (selfty, h), span=c.span)
                for (i, st) in stores:
                    v = b.val(st['rv']['op']) if st['rv']['k'] == 'use' else None
                    okv = False
                    wrapped_variant = None
                    if v is not None and v.kind == 'agg' and v.key[2] == 'Owned' and v.key[3]:
                        w = v.key[3][0]
                        if w.kind == 'agg':
                            wrapped_variant = w.key[2]
                            payload = noref(w.key[3][0]) if w.key[3] else None
                            okv = payload is not None and payload.kind == sv.kind and payload.key == sv.key
                        elif w.kind == 'call':
                            cc = b.call_at(w.key)
                            if cc is not None and cc.is_('Choice::new'):
                                wrapped_variant = '*'
                                payload = noref(b.val(cc.args[0]))
                                okv = payload.kind == sv.kind and payload.key == sv.key
                    if not okv and st['rv']['k'] == 'use' and st['rv']['op'].get('k') in ('copy', 'move'):
                        # a write-back shared by both arms (`let replacement = match .. { .. => owned.map(Choice::L) };
                        # if let Some(r) = replacement { *state = Cow::Owned(r) }`): judged for the executions of
                        # this arm only - `self` does not change, so its matches agree
                        from taint import origin_vals_under
                        self_sws = [sw for sw in b.switches if sw.kind == 'variant' and noref(sw.on).kind == 'arg' and
                                    noref(sw.on).key == 1 and not noref(sw.on).fields()]
                        if self_sws and var != '*':
                            live = b.reach_under([(self_sws, var)], [0])
                            ws = origin_vals_under(b, st['rv']['op'], live, extra=[{'downcast': 'Owned'}, {'f': 0}])
                            def ctor_variant(w):
                                if w.kind == 'agg' and w.key[3]:
                                    return w.key[2]
                                if w.kind == 'call' and not w.projs:
                                    # `owned.map(Choice::L)`: the variant constructor used as a function
                                    cc_ = b.call_at(w.key)
                                    if cc_ is not None and cc_.short.split('::')[-1] in ('L', 'R') and len(cc_.args) == 1:
                                        return cc_.short.split('::')[-1]
                                return None
                            if ws and all(ctor_variant(w) for w in ws):
                                kinds = set(ctor_variant(w) for w in ws)
                                wrapped_variant = next(iter(kinds)) if len(kinds) == 1 else sorted(kinds)
                                from taint import origin_vals
                                okv = True
                    same = wrapped_variant in (var, '*') or var == '*'
                    ctx.check(okv and same, 'C15-R2', tag + ':rewrap-same-variant', b,
                              good='the new inner state is re-wrapped in the same variant (%s)' % var,
                              bad='%s::%s re-wraps the wrapped actor\'s new state as %r (self variant %s): '
                                  'the outer state changes kind or carries a different value' %
                                  (selfty, h, wrapped_variant, var), span=st['span'])
    # the adapters hand commands on through Out::append: it must move them unchanged
    import c06
    ctx.doc('C06-R6', 'Out::{append, send, set_timer, cancel_timer, choose_random, remove_random, broadcast} and the '
                      'Timers/RandomChoices primitives do exactly what their names say')
    with ctx.rule('C06-R6', 'primitives'):
        c06.r6_primitives(ctx, F)
    # R3: scripted client
    with ctx.rule('C15-R3', 'Vec client'):
        b = F.body('<std::vec::Vec<(actor::Id, Msg)> as actor::Actor>::on_msg')
        ctx.touched(b)
        sends = b.calls_to('Out::send')
        incs = []
        for (i, si, st) in b.assigns(lambda st: st['rv']['k'] == 'bin' and st['rv']['op'] in ('AddWithOverflow', 'Add')):
            one = b.val(st['rv']['b'])
            if one.kind == 'const' and one.key == 1:
                incs.append(i)
        ok = len(sends) == 1 and len(incs) == 1
        if ok:
            s, i = sends[0].bb, incs[0]
            # same paths: each is unreachable from entry without the other being on the path
            r1 = b.reach([0], cut_blocks=[s])
            r2 = b.reach([s], cut_blocks=[i])
            ok = i not in r1 and not any(x in r2 for x in b.returns)
        ctx.check(ok, 'C15-R3', 'send-iff-advance', b,
                  good='the scripted client sends exactly when it advances its index',
                  bad='Vec<(Id, Msg)>::on_msg can send without advancing (or advance without sending): the '
                      'script is repeated or skipped')
        if sends:
            g = [c for c in b.calls_to('slice::get', 'Vec::get')]
            okg = len(g) == 1 and noref(b.trace(b.val(g[0].args[1]), ('Deref::deref',))).key == 3
            ctx.check(okg, 'C15-R3', 'next-is-indexed-by-state', b,
                      good='the message sent is script[state]',
                      bad='Vec<(Id, Msg)>::on_msg does not pick script[state]')
        s = F.body('<std::vec::Vec<(actor::Id, Msg)> as actor::Actor>::on_start')
        ctx.touched(s)
        fs = s.calls_to('slice::first')
        snd = s.calls_to('Out::send')
        first_ok = len(fs) == 1
        if not fs and len(snd) == 1:
            # the slice-pattern spelling `[(dst, msg), ..]`: the destination is element 0 of the script itself
            dv = noref(s.trace(s.val(snd[0].args[1]), ('Vec::as_slice', 'Deref::deref', 'AsRef::as_ref', 'Clone::clone')))
            idx0 = [q for q in dv.projs if q.startswith('[')]
            root = noref(s.trace(V(dv.kind, dv.key), ('Vec::as_slice', 'Deref::deref', 'AsRef::as_ref')))
            first_ok = idx0[:1] == ['[0]'] and root.kind == 'arg' and root.key == 1
        ctx.check(first_ok and len(snd) == 1, 'C15-R3', 'start-sends-first', s,
                  good='on_start sends exactly the first script entry',
                  bad='Vec<(Id, Msg)>::on_start does not send exactly script.first()')
