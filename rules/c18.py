"""C18 - reference objects and the register harness yield well-formed, faithful histories."""
from actor_rules import noref
from common import iter_places
from mir import AnchorMissing, V

LEVEL_TEXT = (
    'Static table/path rules: for Register, WORegister and Vec the (operation, return) pairs that '
    'is_valid_step can accept are exactly the pairs invoke can produce, and an operation kind that '
    'mutates the object in invoke also mutates it on an accepting path of is_valid_step; '
    'record_invocations/record_returns of both register harnesses map each message kind to the '
    'intended operation/return, use env.src / env.dst as thread id and record into a clone of the '
    'history; every request sent by a client from on_msg is guarded by "reply id == awaiting" and is '
    'accompanied on every path by a store of Client{awaiting: Some(the id just sent)}, and GetOk '
    'clears awaiting. Value-level equivalence of is_valid_step and invoke (e.g. resulting object '
    'state after a rejected step) and request-id freshness arithmetic are not decided.')

FLOORS = {'C18-R1': 13, 'C18-R2': 12, 'C18-R3': 8}

SPECS = [
    ('semantics::register::Register<T>', 'semantics::register::RegisterRet'),
    ('semantics::write_once_register::WORegister<T>', 'semantics::write_once_register::WORegisterRet'),
    ('std::vec::Vec<T>', 'semantics::vec::VecRet'),
]


def resolve_arg(b, v):
    v = noref(b.agg_field(v))
    v = noref(b.agg_field(v))
    return v


def switches_on_arg(b, n):
    out = []
    for sw in b.switches:
        if sw.kind != 'variant':
            continue
        on = resolve_arg(b, sw.on)
        if on.kind == 'arg' and on.key == n and not on.fields():
            out.append(sw)
    return out


def variant_names(sws):
    names = set()
    for sw in sws:
        for (l, t) in sw.edges:
            if isinstance(l, str):
                names.add(l)
            elif isinstance(l, frozenset):
                names |= set(l)
    return sorted(names)


def region(b, sws, variant):
    """blocks dominated by a `variant` edge of one of the switches"""
    edges = []
    for sw in sws:
        edges += sw.edges_for(variant)
    live = b.live_blocks()
    return set(x for x in live if edges and b.edges_dominate(edges, x)), edges


def mutates_self(b, blocks):
    for (i, si, st) in b.assigns():
        if i in blocks and st['lhs']['p']:
            root = noref(b.place_val({'l': st['lhs']['l'], 'p': []}))
            if root.kind == 'arg' and root.key == 1:
                return True
    for c in b.calls:
        if c.bb in blocks:
            for a in c.args:
                if a['k'] in ('move', 'copy') and b.locals[a['place']['l']]['ty'].startswith('&mut'):
                    v = noref(b.val(a))
                    if v.kind == 'arg' and v.key == 1:
                        return True
    return False


def r1_spec_tables(ctx, F):
    rule = 'C18-R1'
    for selfty, retadt in SPECS:
        with ctx.rule(rule, selfty):
            import re as _re
            inv = F.one_body(_re.escape(selfty) + r'( as semantics::SequentialSpec>|>)::invoke$', 'invoke')
            ivs = F.one_body(_re.escape(selfty) + r'( as semantics::SequentialSpec>|>)::is_valid_step$', 'is_valid_step')
            ctx.touched(inv)
            ctx.touched(ivs)
            op_sw_i = switches_on_arg(inv, 2)
            ops = variant_names(op_sw_i)
            if not ops:
                raise AnchorMissing('%s::invoke: match on op' % selfty)
            produced = set()
            mut_inv = {}
            for o in ops:
                blocks = inv.reach_under([(op_sw_i, o)])
                only = blocks - set().union(*[inv.reach_under([(op_sw_i, x)]) for x in ops if x != o]) if len(ops) > 1 else blocks
                for (i, si, st) in inv.assigns(lambda st: st['rv']['k'] == 'agg' and st['rv'].get('adt') == retadt):
                    if i in blocks:
                        produced.add((o, st['rv']['variant']))
                mut_inv[o] = mutates_self(inv, only)
            op_sw = switches_on_arg(ivs, 2)
            ret_sw = switches_on_arg(ivs, 3)
            rets = variant_names(ret_sw)
            accepted = set()
            mut_ivs = {}
            all_pairs = [(o, r) for o in variant_names(op_sw) for r in rets]
            reach_p = dict((p_, ivs.reach_under([(op_sw, p_[0]), (ret_sw, p_[1])])) for p_ in all_pairs)
            for (o, r) in all_pairs:
                both = reach_p[(o, r)]
                # can the step be accepted for this (op, ret)? - the result may be a constant handed through
                # a temporary (`matches!(ret, Pat if guard)`), so it is resolved under the constraints
                from common import possible_results
                res_ = possible_results(ivs, both)
                acc = (True in res_) or ('?' in res_ and any(
                    i in both and not (st['rv']['k'] == 'use' and st['rv']['op']['k'] == 'const')
                    for (i, si, st) in ivs.assigns(lambda st: st['lhs']['l'] == 0 and not st['lhs']['p'])
                    if not (st['rv']['k'] == 'use' and st['rv']['op'].get('k') in ('copy', 'move') and
                            ivs.locals[st['rv']['op']['place']['l']]['ty'] == 'bool' and
                            '?' not in possible_results(ivs, both, st['rv']['op']['place']['l']))))
                for c in ivs.calls:
                    if c.bb in both and c.dest['l'] == 0 and not c.dest['p']:
                        acc = True
                if acc:
                    accepted.add((o, r))
                    others = set()
                    for q in all_pairs:
                        if q != (o, r):
                            others |= reach_p[q]
                    mut_ivs[(o, r)] = mutates_self(ivs, both - others)
            # guards that compare the operation's payload with the object state must agree in polarity
            def payload_state_tests(b):
                out = []
                for c in b.calls_to('PartialEq::eq', 'PartialEq::ne', 'cmp::impls::eq', 'cmp::impls::ne'):
                    vs = [noref(b.trace(resolve_arg(b, b.val(a)), ('Option::as_ref', 'Option::as_deref', 'Option::as_mut',
                                                                  'Deref::deref'))) for a in c.args[:2]]
                    # an operand may arrive through a join (`current` = the existing or the freshly stored value)
                    from taint import vals_of as _vo
                    vs2 = []
                    for v in vs:
                        if v.kind == 'local':
                            alt = set(noref(x) for x in _vo(b, v))
                            if len(alt) == 1:
                                v = next(iter(alt))
                        vs2.append(v)
                    roots = sorted(v.key for v in vs2 if v.kind == 'arg')
                    if roots == [1, 2]:
                        eq = c.short.endswith('::eq') or c.dshort.endswith('::eq')
                        out.append((b.branch(c, True) if eq else b.branch(c, False),
                                    b.branch(c, False) if eq else b.branch(c, True)))
                        answers[(b.path, c.bb)] = eq          # the call answers true exactly when payload == state?
                return out
            answers = {}

            def polarity(b, tests, blk):
                for (eq_e, ne_e) in tests:
                    if eq_e and b.edges_dominate(eq_e, blk):
                        return 'payload == state'
                    if ne_e and b.edges_dominate(ne_e, blk):
                        return 'payload != state'
                return 'unconditional'
            t_inv, t_ivs = payload_state_tests(inv), payload_state_tests(ivs)
            if t_inv or t_ivs:
                # cell by cell: for every (kind of op, shape of the object state, payload == state?) the return
                # kinds invoke can produce are exactly the ones is_valid_step can accept - independent of how
                # the guards are nested, merged (`is_none_or`) or ordered
                from common import possible_results

                def state_switches(b):
                    out = []
                    for sw in b.switches:
                        if sw.kind != 'variant':
                            continue
                        on = noref(b.trace(resolve_arg(b, sw.on), ('Option::as_ref', 'Option::as_deref', 'Option::as_mut',
                                                                   'Deref::deref')))
                        if on.kind == 'arg' and on.key == 1 and on.fields():
                            out.append(sw)
                    return out

                def not_edges(sws, label):
                    # (several labels may share a target block - `WriteOk | WriteFail => false`: an edge that the
                    # wanted label also takes is not cut)
                    keep = set(e for sw in sws for e in sw.edges_for(label))
                    return [e for sw in sws for e in sw.edges_not(label) if e not in keep]

                def shape_calls_cut(b, shape):
                    """the same question asked with `self.0.is_none()` / `is_some()`: the edges that contradict `shape`"""
                    out = []
                    for c in b.calls_to('Option::is_none', 'Option::is_some'):
                        v = noref(b.trace(resolve_arg(b, b.val(c.args[0])), ('Option::as_ref', 'Deref::deref')))
                        if not (v.kind == 'arg' and v.key == 1 and v.fields()):
                            continue
                        says_none = c.is_('Option::is_none')
                        # edge taken when the call's answer contradicts the shape
                        wrong = (shape == 'Some') == says_none
                        out += b.branch(c, wrong)
                    return out
                st_i, st_v = state_switches(inv), state_switches(ivs)
                shapes = variant_names(st_i) or variant_names(st_v) or [None]
                cells = [(sh, eqv) for sh in shapes for eqv in (True, False)]
                prod_c, acc_c = {}, {}
                for o in ops:
                    for (sh, eqv) in cells:
                        cut = not_edges(op_sw_i, o) + (not_edges(st_i, sh) + shape_calls_cut(inv, sh) if sh else [])
                        for (eq_e, ne_e) in t_inv:
                            cut += ne_e if eqv else eq_e
                        from common import reach_with_flags as _rwf
                        blocks = _rwf(inv, [0], cut_edges=cut)
                        got = set(st['rv']['variant'] for (i, si, st) in inv.assigns(
                            lambda st: st['rv']['k'] == 'agg' and st['rv'].get('adt') == retadt) if i in blocks)
                        # a cell that cannot occur (payload == state while the object holds nothing) is skipped
                        # when both functions agree that it yields what the other polarity yields
                        prod_c[(o, sh, eqv)] = got
                        for r in rets:
                            cutv = not_edges(op_sw, o) + not_edges(ret_sw, r) + \
                                (not_edges(st_v, sh) + shape_calls_cut(ivs, sh) if sh else [])
                            for (eq_e, ne_e) in t_ivs:
                                cutv += ne_e if eqv else eq_e
                            from common import reach_with_flags
                            live = reach_with_flags(ivs, [0], cut_edges=cutv)
                            # a comparison whose result is returned (not branched on) has the assumed answer
                            assumed = dict((bb_, (eqv if is_eq else not eqv)) for ((pth, bb_), is_eq) in answers.items()
                                           if pth == ivs.path)
                            res_ = possible_results(ivs, live, atoms=assumed)
                            if True in res_ or '?' in res_:
                                acc_c.setdefault((o, sh, eqv), set()).add(r)
                for pr in sorted(set((o, r) for (o, sh, e_) in prod_c for r in prod_c[(o, sh, e_)]) |
                                 set((o, r) for k_ in acc_c for r in acc_c[k_] for o in [k_[0]])):
                    o, r = pr
                    diff = [(sh, e_) for (oo, sh, e_) in prod_c if oo == o and
                            ((r in prod_c[(oo, sh, e_)]) != (r in acc_c.get((oo, sh, e_), set())))]
                    ctx.check(not diff, rule, 'guard-polarity:%s->%s' % pr, ivs,
                              good='%s->%s is produced and accepted under the same object-state / payload conditions' % pr,
                              bad='%s: invoke produces %s for %s under other conditions than is_valid_step accepts it '
                                  '(disagreement for object state / payload==state in %s): a step is accepted that '
                                  'invoking the operation could not have returned (or vice versa)' %
                                  (selfty, pr[1], pr[0], diff))
            # a returned value that carries data (PopOk(v), LenOk(n), ReadOk(v)) can only be accepted after it was
            # looked at: every accepting path examines the payload - compares it, or branches on its shape
            from common import possible_results as _pr
            from taint import Taint
            with_payload = set(v_['name'] for v_ in F.adts[retadt]['variants'] if v_['fields']) if retadt in F.adts else set()
            seeds = {}
            for (i, si, st) in ivs.assigns():
                rv = st['rv']
                pl = rv['op']['place'] if rv['k'] in ('use', 'cast') and rv['op'].get('k') in ('copy', 'move') else \
                    rv['place'] if rv['k'] in ('ref', 'discr') else None
                if pl is None or st['lhs']['p']:
                    continue
                pv = noref(resolve_arg(ivs, ivs.place_val(pl)))
                if pv.kind == 'arg' and pv.key == 3 and pv.fields():
                    seeds.setdefault(st['lhs']['l'], set()).add('RET')
            Tt = Taint(ivs, seeds)
            examined = set()
            for i in ivs.live_blocks():
                for st in ivs.blocks[i]['stmts']:
                    if st['k'] == 'assign' and st['rv']['k'] == 'bin' and st['rv']['op'] in ('Eq', 'Ne', 'Lt', 'Le', 'Gt', 'Ge'):
                        if any('RET' in Tt.of_operand(o, i) for o in (st['rv']['a'], st['rv']['b'])):
                            examined.add(i)
            for c in ivs.calls:
                if c.is_('PartialEq::eq', 'PartialEq::ne', 'PartialOrd::lt', 'PartialOrd::le', 'PartialOrd::gt',
                         'PartialOrd::ge', 'Ord::cmp', 'PartialOrd::partial_cmp') and \
                        any('RET' in Tt.of_operand(a, c.bb) for a in c.args):
                    examined.add(c.bb)
            for sw_ in ivs.switches:
                on = noref(resolve_arg(ivs, sw_.on))
                if sw_.kind == 'variant' and on.kind == 'arg' and on.key == 3 and on.fields():
                    examined.add(sw_.bb)      # branches on the shape of the payload (`PopOk(None)`)
            for (o, r) in sorted(accepted):
                if r not in with_payload:
                    continue
                blind = ivs.reach_under([(op_sw, o), (ret_sw, r)], [0], cut_blocks=examined)
                res_b = _pr(ivs, blind)
                defs_blind = [d for d in ivs.defs.get(0, []) if d[0] in blind]
                okb = not defs_blind or not ({True, '?'} & set(res_b))
                ctx.check(okb, rule, 'payload-examined:%s->%s' % (o, r), ivs,
                          good='%s->%s is accepted only on paths that looked at the returned value' % (o, r),
                          bad='%s: is_valid_step can accept %s for %s on a path that never looks at the value it '
                              'carries: a return value invoke could not have produced is accepted, so histories that '
                              'no sequential execution explains pass as valid' % (selfty, r, o))
            ctx.check(produced == accepted and bool(produced), rule, 'accepted-pairs==produced-pairs', ivs,
                      good='is_valid_step accepts exactly the (op, ret) kinds invoke produces: %s' % sorted(produced),
                      bad='%s: is_valid_step can accept %s but invoke can produce %s: only-accepted %s, '
                          'only-produced %s - checking a step is not equivalent to invoking and comparing' %
                          (selfty, sorted(accepted), sorted(produced), sorted(accepted - produced),
                           sorted(produced - accepted)))
            for o in ops:
                if not mut_inv.get(o):
                    continue
                accs = [(oo, r) for (oo, r) in accepted if oo == o]
                ok = bool(accs) and any(mut_ivs.get(p) for p in accs)
                ctx.check(ok, rule, 'mutation-agreement:%s' % o, ivs,
                          good='%s mutates the object in invoke and on an accepting path of is_valid_step' % o,
                          bad='%s: invoke(%s) mutates the object but no accepting path of is_valid_step for %s '
                              'does: after a validated step the reference object is in a different state '
                              'than after invoking it' % (selfty, o, o))
            for o in ops:
                if mut_inv.get(o):
                    continue
                accs = [(oo, r) for (oo, r) in accepted if oo == o]
                bad = [p for p in accs if mut_ivs.get(p)]
                ctx.check(not bad, rule, 'read-only-agreement:%s' % o, ivs,
                          good='%s leaves the object untouched in both functions' % o,
                          bad='%s: is_valid_step mutates the object for %s although invoke(%s) does not' %
                              (selfty, bad, o))


HOOKS = [
    ('actor::register::RegisterMsg::<RequestId, Value, InternalMsg>::record_invocations', 'on_invoke', '.src',
     {'Put': 'Write', 'Get': 'Read'}),
    ('actor::register::RegisterMsg::<RequestId, Value, InternalMsg>::record_returns', 'on_return', '.dst',
     {'PutOk': 'WriteOk', 'GetOk': 'ReadOk'}),
    ('actor::write_once_register::WORegisterMsg::<RequestId, Value, InternalMsg>::record_invocations', 'on_invoke',
     '.src', {'Put': 'Write', 'Get': 'Read'}),
    ('actor::write_once_register::WORegisterMsg::<RequestId, Value, InternalMsg>::record_returns', 'on_return',
     '.dst', {'PutOk': 'WriteOk', 'GetOk': 'ReadOk', 'PutFail': 'WriteFail'}),
]


def r2_recording(ctx, F):
    rule = 'C18-R2'
    for path, meth, tid_field, table in HOOKS:
        with ctx.rule(rule, path):
            b = F.body(path)
            ctx.touched(b)
            sws = []
            for sw in b.switches:
                if sw.kind == 'variant':
                    on = noref(sw.on)
                    if on.kind == 'arg' and on.key == 3 and on.fields() == ('.msg',):
                        sws.append(sw)
            if not sws:
                raise AnchorMissing('%s: match on env.msg' % path)
            recs = b.calls_to('ConsistencyTester::' + meth)
            seen = {}
            for c in recs:
                labs = [l for l in variant_names(sws) if c.bb in b.reach_under([(sws, l)])]
                opv = b.val(c.args[2])
                opname = opv.key[2] if opv.kind == 'agg' else repr(opv)

                def built_under(l, live, depth=0):
                    """variant names of the aggregates local l can hold when only `live` blocks run"""
                    out = set()
                    ds = [d for d in b.defs.get(l, []) if d[1] == 'call' or not d[2]['lhs']['p']]
                    ds = [d for d in ds if d[0] in live] if len(ds) > 1 else ds
                    for d in ds:
                        rv = d[2]['rv'] if d[1] != 'call' else None
                        if rv is not None and rv['k'] == 'agg' and rv.get('variant'):
                            out.add(rv['variant'])
                        elif rv is not None and rv['k'] == 'use' and rv['op'].get('k') in ('copy', 'move') and \
                                not rv['op']['place']['p'] and depth < 6:
                            out |= built_under(rv['op']['place']['l'], live, depth + 1)
                        else:
                            out.add('?')
                    return out
                tid = noref(b.val(c.args[1]))
                hist = noref(b.trace(b.val(c.args[0]), ()))
                hsrc = b.call_at(hist.key) if hist.kind == 'call' else None
                cloned = hsrc is not None and hsrc.is_('Clone::clone') and noref(b.val(hsrc.args[0])) == V('arg', 2)
                for l in labs:
                    name_l = opname
                    if opv.kind == 'local' and not opv.projs:
                        # the operation is chosen by a second match on the message: judge it per message kind
                        vs = built_under(opv.key, b.reach_under([(sws, l)]))
                        if len(vs) == 1 and '?' not in vs:
                            name_l = next(iter(vs))
                    seen[l] = (name_l, tid, cloned, c)
            for msgv, want in table.items():
                got = seen.get(msgv)
                ok = got is not None and got[0] == want
                ctx.check(ok, rule, '%s->%s' % (msgv, want), b,
                          good='%s records %s' % (msgv, want),
                          bad='%s records %s for message kind %s, expected %s: the history no longer mirrors '
                              'what the client did' % (path.split('::')[-1], got[0] if got else 'nothing', msgv, want))
                if got is not None:
                    ctx.check(got[1] == V('arg', 3, (tid_field,)), rule, '%s-thread-id' % msgv, b,
                              good='thread id is env%s' % tid_field,
                              bad='%s uses %r as thread id for %s instead of env%s: operations are attributed '
                                  'to the wrong client' % (path.split('::')[-1], got[1], msgv, tid_field))
                    ctx.check(got[2], rule, '%s-records-into-clone' % msgv, b,
                              good='the operation is recorded into a clone of the history',
                              bad='%s does not record into a clone of the given history' % path.split('::')[-1])
            extra = sorted(set(seen) - set(table))
            ctx.check(not extra, rule, 'no-other-kind-recorded', b,
                      good='no other message kind is recorded',
                      bad='%s also records message kinds %s' % (path.split('::')[-1], extra))


CLIENTS = [
    ('<actor::register::RegisterActor<ServerActor> as actor::Actor>::on_msg', 'actor::register::RegisterActorState'),
    ('<actor::write_once_register::WORegisterActor<ServerActor> as actor::Actor>::on_msg',
     'actor::write_once_register::WORegisterActorState'),
]


def r3_one_outstanding(ctx, F):
    rule = 'C18-R3'
    for path, state_adt in CLIENTS:
        with ctx.rule(rule, path):
            b = F.body(path)
            ctx.touched(b)
            sends = b.calls_to('Out::send')
            if len(sends) < 1:
                raise AnchorMissing('%s: client sends' % path)
            # guards: PartialEq::eq between something derived from msg (arg 5) and the state's awaiting
            guards = []
            for c in b.calls_to('PartialEq::eq'):
                vs = [noref(resolve_arg(b, b.val(a))) for a in c.args[:2]]
                from_msg = [v for v in vs if v.kind == 'arg' and v.key == 5]
                if not from_msg:
                    # a binding of an or-pattern (`PutOk(id) | PutFail(id)`) has one definition per alternative
                    from taint import origin_vals as _ov
                    for a in c.args[:2]:
                        ovs = _ov(b, a) if a.get('k') in ('copy', 'move') else set()
                        if ovs and all(v.kind == 'arg' and v.key == 5 for v in ovs):
                            from_msg = list(ovs)
                from_state = [v for v in vs if '.awaiting' in v.fields()]
                if from_msg and from_state:
                    guards.append(c)
            # ... or compared as plain integers (`request_id == *awaiting` on a u64 id is a primitive comparison)
            from common import comparisons as _cmps
            prim_guards = []
            for (x_, y_, rel_, te_, fe_, bb_) in _cmps(b):
                if rel_ not in ('eq', 'ne') or b.call_at(bb_) is not None and b.call_at(bb_) in guards:
                    continue
                vs_ = [noref(resolve_arg(b, x_)), noref(resolve_arg(b, y_))]
                # (the binding of an or-pattern `PutOk(id) | PutFail(id)` has one definition per alternative)
                from taint import vals_of as _vo2
                vs_ = [v if v.kind != 'local' else
                       (lambda alt: next(iter(alt)) if alt and all(a_.kind == 'arg' and a_.key == 5 for a_ in alt) else v)(
                           set(noref(a_) for a_ in _vo2(b, v))) for v in vs_]
                if any(v.kind == 'arg' and v.key == 5 for v in vs_) and any('.awaiting' in v.fields() for v in vs_):
                    prim_guards.append(te_ if rel_ == 'eq' else fe_)
            if not guards and not prim_guards:
                raise AnchorMissing('%s: request-id == awaiting guards' % path)
            stores = []
            for (i, si, st) in b.assigns(lambda st: st['lhs']['p'] == ['deref'] and st['lhs']['l'] == 3):
                v = b.val(st['rv']['op']) if st['rv']['k'] == 'use' else None
                if v is not None and v.kind == 'agg' and v.key[2] == 'Owned' and v.key[3] and \
                        v.key[3][0].kind == 'agg' and v.key[3][0].key[1] == state_adt and v.key[3][0].key[2] == 'Client':
                    stores.append((i, v.key[3][0], st))
            aw_idx = None
            for var in F.adt(state_adt)['variants']:
                if var['name'] == 'Client':
                    for fi, fld in enumerate(var['fields']):
                        if fld['name'] == 'awaiting':
                            aw_idx = fi
            if aw_idx is None:
                raise AnchorMissing('%s: Client.awaiting field' % state_adt)
            from taint import origin_vals
            stores_st = dict((i, st_) for (i, a, st_) in stores)
            stores = [(i, a) for (i, a, st_) in stores]
            for s_ in sends:
                role = 'send@%s' % s_.span.split(':')[-1]
                te = []
                for e in [b.branch(g, True) for g in guards] + prim_guards:
                    if e and b.edges_dominate(e, s_.bb):
                        te = e
                if not te:
                    # `PutOk(id) | PutFail(id) if id == awaiting`: the guard is evaluated once per alternative;
                    # together their true edges guard the arm
                    allt = [e for g in guards for e in b.branch(g, True)] + [e for es in prim_guards for e in es]
                    if allt and b.edges_dominate(allt, s_.bb):
                        te = allt
                ctx.check(bool(te), rule, 'guarded:' + role, b,
                          good='the request is sent only after a reply whose id equals `awaiting`',
                          bad='%s sends a request at %s without the reply\'s request id having been compared '
                              'with `awaiting`: a stale or duplicated reply triggers a second request while one '
                              'is outstanding, and the recorded history becomes ill-formed' % (path, s_.span),
                          span=s_.span)
                r = b.reach([s_.target], cut_blocks=[i for (i, a) in stores])
                ok = bool(stores) and not any(x in r for x in b.returns)
                ctx.check(ok, rule, 'awaiting-updated:' + role, b,
                          good='every path after the send stores Client{awaiting: ..}',
                          bad='%s can return after sending a request without updating `awaiting`' % path,
                          span=s_.span)
                # the stored awaiting is Some(id that was sent)
                # (compared as sets of def-use values: the message and the new state may both be
                # taken out of a tuple that a helper returned)
                sent_id = origin_vals(b, s_.args[2], extra=[{'downcast': '*'}, {'f': 0}])
                after = b.reach([s_.target])
                okid = False
                for (i, a) in stores:
                    if i in after and stores_st[i]['rv']['k'] == 'use':
                        kept = origin_vals(b, stores_st[i]['rv']['op'],
                                           extra=[{'downcast': 'Owned'}, {'f': 0}, {'downcast': 'Client'}, {'f': aw_idx},
                                                  {'downcast': 'Some'}, {'f': 0}])
                        if sent_id and kept == sent_id:
                            okid = True
                ctx.check(okid, rule, 'awaiting-is-sent-id:' + role, b,
                          good='`awaiting` becomes Some(request id just sent)',
                          bad='%s: after sending request id %r the client waits for a different id' % (path, sent_id),
                          span=s_.span)
            # every accepted reply is one completed operation: each new client state counts one more than the old
            # one (the request ids and the put/get decision are derived from the counter, so a reply that leaves
            # it where it was makes the next request reuse an id, or lets the client put more often than put_count)
            oc_idx = None
            for var in F.adt(state_adt)['variants']:
                if var['name'] == 'Client':
                    for fi, fld in enumerate(var['fields']):
                        if fld['name'] == 'op_count':
                            oc_idx = fi
            if oc_idx is None:
                raise AnchorMissing('%s: Client.op_count field' % state_adt)

            def is_old_plus_one(v, depth=0):
                v = noref(v)
                parts = None
                if v.kind == 'call' and b.call_at(v.key) is not None and b.call_at(v.key).is_('Add::add') and \
                        not v.fields():
                    parts = [b.val(a) for a in b.call_at(v.key).args[:2]]
                elif v.kind == 'bin' and v.key[0] in ('Add', 'AddWithOverflow', 'AddUnchecked'):
                    parts = [v.key[1], v.key[2]]
                if parts is None or len(parts) != 2:
                    return False
                parts = [noref(resolve_arg(b, x)) for x in parts]
                one = [x for x in parts if x.kind == 'const' and x.key == 1]
                old = [x for x in parts if '.op_count' in x.fields() and x.kind in ('arg', 'call')]
                return len(one) == 1 and len(old) == 1
            for (i, a) in stores:
                ops = a.key[3]
                okc = oc_idx < len(ops) and is_old_plus_one(ops[oc_idx])
                ctx.check(okc, rule, 'op-count-advances@%s' % ('send' if any(i in b.reach([s_.target]) for s_ in sends)
                                                                else 'final'), b,
                          good='the new client state counts one operation more than the old one',
                          bad='%s stores a client state whose op_count is %r, not the old count plus one: the next '
                              'request reuses the id of this one (the ids are derived from the count), so a late '
                              'reply to the old request is taken for the answer to the new one' %
                              (path, ops[oc_idx] if oc_idx < len(ops) else None),
                          span=stores_st[i].get('span'))
            # GetOk: clears awaiting, sends nothing
            nones = [(i, a) for (i, a) in stores if a.key[3] and a.key[3][0].kind == 'agg' and a.key[3][0].key[2] == 'None']
            ok = False
            for (i, a) in nones:
                g_ok = any(e and b.edges_dominate(e, i) for e in [b.branch(g, True) for g in guards] + prim_guards)
                if not g_ok:
                    # the replies may be classified first (`let put_acked = match msg { PutOk(id) if id == awaiting
                    # => true, GetOk(id, _) if id == awaiting => false, _ => return }`): together the true edges of
                    # the id tests guard what follows
                    allt_ = [e for g in guards for e in b.branch(g, True)] + [e for es in prim_guards for e in es]
                    g_ok = bool(allt_) and b.edges_dominate(allt_, i)
                no_send = not any(s_.bb in b.reach([i]) or i in b.reach([s_.bb]) for s_ in sends)
                if g_ok and no_send:
                    ok = True
            ctx.check(ok, rule, 'final-reply-clears-awaiting', b,
                      good='the final (Get) reply clears `awaiting` under the same id guard and sends nothing',
                      bad='%s: no guarded path clears `awaiting` without sending' % path)


def run(ctx):
    F = ctx.facts
    ctx.doc('C18-R1', 'accepted (op, ret) kinds of is_valid_step == produced kinds of invoke; mutation agreement')
    ctx.doc('C18-R2', 'record_invocations/record_returns tables, thread ids env.src/env.dst, recording into a clone')
    ctx.doc('C18-R3', 'client sends are guarded by reply id == awaiting, followed on every path by '
                      'Client{awaiting: Some(sent id)}; the final reply clears awaiting and sends nothing')
    r1_spec_tables(ctx, F)
    r2_recording(ctx, F)
    r3_one_outstanding(ctx, F)
