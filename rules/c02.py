"""C02 - always/sometimes verdicts are exact once a check completes."""
from checkers import CB, EXHAUSTIVE, Spawn, is_arg, noref
from c01 import iter_source
from c03 import role_of_insert
from common import fmt_edges
from mir import AnchorMissing, V

LEVEL_TEXT = (
    'Static table/path rules: in all four check loops the Always arm records a discovery only on '
    'condition=false, the Sometimes arm only on condition=true, the Eventually arm never; the '
    'property loop iterates model.properties() completely with contains_key(discoveries)=true as its '
    'only skip; the three classification tables (discovery_is_failure, discovery_classification, '
    'assert_properties) agree per Expectation variant; every worker return is one of the sanctioned '
    'exits; assert_no_discovery / assert_any_discovery diverge on the right side and is_done is '
    'closed-market OR all-discovered; plus the state-space coverage rules of C01 (R1-R5, R7, R9, R10), '
    'because "if and only if some reachable state violates it" presupposes that every reachable '
    'in-boundary state is evaluated. The equivalence itself is an argument over these clauses, not a '
    'computation.')

FLOORS = {'C02-R1': 20, 'C02-R2': 12, 'C02-R3': 9, 'C02-R4': 4, 'C02-R5': 10, 'C01-R1': 3, 'C01-R2': 3,
          'C01-R3': 12, 'C01-R4': 8, 'C01-R5': 3, 'C01-R7': 5, 'C01-R9': 3, 'C01-R10': 4, 'C10-R1': 8, 'C10-R3': 5, 'C05-R3': 2, 'C05-R4': 2, 'C05-R5': 3, 'C11-R1': 14}


def r1_polarity(ctx, cb):
    b = cb.b
    rule = 'C02-R1'
    ctx.touched(b)
    # polarity, as a truth table over (kind of property, outcome of its condition): a discovery is recorded
    # exactly for (Always, false) and (Sometimes, true) - however the arms are laid out
    want = {'Always': False, 'Sometimes': True}
    in_loop = [c for c in cb.as_inserts if b.dominates(cb.prop_loop.bb, c.bb)]
    for arm in ('Always', 'Sometimes'):
        hit = [c for c in in_loop if c.bb in cb.cell(arm, want[arm])]
        miss = [c for c in in_loop if c.bb in cb.cell(arm, not want[arm])]
        evald = [c for c in cb.cond_calls if c.bb in cb.cell(arm)]
        if not hit and not miss:
            ctx.bad(rule, 'polarity-%s' % arm, b, '%s: no discovery is ever recorded in the %s arm' % (cb.strat, arm))
            continue
        ctx.check(bool(hit) and not miss and bool(evald), rule, 'polarity-%s' % arm, b,
                  good='%s: discovery recorded only when the condition returned %s' % (arm, want[arm]),
                  bad='%s: in the %s arm the discovery at %s is not control-dependent on the condition '
                      'returning %s: the verdict polarity is wrong (a %s is reported for a state that %s)'
                      % (cb.strat, arm, (hit + miss)[0].span, want[arm],
                         'counterexample' if arm == 'Always' else 'example',
                         'satisfies the invariant' if arm == 'Always' else 'does not satisfy the condition'),
                  span=(hit + miss)[0].span)
    ev_hits = [c for c in in_loop if c.bb in cb.cell('Eventually')]
    if ev_hits:
        ctx.bad(rule, 'insert-in-Eventually-arm', b,
                '%s: a discovery is recorded in the Eventually arm of the expectation match: eventually discoveries '
                'are only legitimate at terminal states' % cb.strat, span=ev_hits[0].span)
    stray = [c for c in cb.as_inserts if c not in in_loop]
    for c in stray:
        ctx.bad(rule, 'insert-in-other-arm', b, '%s: a discovery is recorded at %s outside the property loop and '
                                                'the terminal-state rule: unexpected site' % (cb.strat, c.span), span=c.span)
    # each arm evaluates exactly one condition, on (model, state)
    for arm in ('Always', 'Sometimes', 'Eventually'):
        conds = cb.cond_in_arm(arm)
        ok = len(conds) == 1 and is_arg(b.val(conds[0].args[0]), cb.p_model)
        ctx.check(ok, rule, 'one-condition-%s' % arm, b,
                  good='%s arm calls property.condition(model, state) once' % arm,
                  bad='%s: the %s arm evaluates %d conditions / not on the model parameter' %
                      (cb.strat, arm, len(conds)))
        if conds:
            fv = b.val(conds[0].fnptr)
            # the condition belongs to the property being matched
            sv = cb.exp_main.on
            from taint import vals_of

            def owners(v):
                # the property a field was read from; a loop item may arrive through a join (the `Some(item)`
                # an expanded `filter` hands on)
                out = set()
                for x in vals_of(b, noref(v)):
                    x = noref(x)
                    out.add((x.kind, repr(x.key), tuple(x.projs[:-1])))
                return out
            same = owners(fv) == owners(sv) and len(owners(fv)) == 1
            ctx.check(same, rule, 'condition-of-matched-property-%s' % arm, b,
                      good='the condition called is the matched property\'s own',
                      bad='%s: the %s arm calls the condition of a different property (%r vs %r)' %
                          (cb.strat, arm, fv, sv))
    # key recorded = name of the matched property
    for ins in cb.disc_inserts:
        kv = b.val(ins.args[1])
        ok = kv.fields() and kv.fields()[-1] == '.name'
        if not ok:
            # the name may have been taken out in an earlier stage of a pipeline (`.map(|(_, p)| p.name)`)
            from taint import vals_of as _vo
            alts_ = set(noref(x) for x in _vo(b, noref(kv)))
            ok = bool(alts_) and all(x.fields()[-1:] == ('.name',) for x in alts_)
        ctx.check(bool(ok), rule, 'key-is-property-name@%s' % role_of_insert(cb, ins), b,
                  good='discovery key is the property name', bad='%s: discovery key %r is not property.name'
                                                              % (cb.strat, kv), span=ins.span)


def r2_all_properties(ctx, cb):
    b = cb.b
    rule = 'C02-R2'
    some = [e[1] for e in cb.prop_loop_some]
    r = b.reach(some, cut_blocks=[cb.prop_loop.bb])
    exits = []
    if any(x in r for x in b.returns):
        exits.append('return')
    if cb.actions.bb in r:
        exits.append('successor generation')
    ctx.check(not exits, rule, 'property-loop-exhaustive', b,
              good='the property loop can only be left by exhausting the iterator',
              bad='%s: the property loop can be left early (%s): later properties are not evaluated on '
                  'this state' % (cb.strat, exits))
    skip = []
    for c in cb.disc_contains:
        skip += b.branch(c, True)
    r2 = b.reach(some, cut_edges=skip, cut_blocks=[cb.exp_main.bb])
    ctx.check(cb.prop_loop.bb not in r2, rule, 'only-skip-is-already-discovered', b,
              good='a property is skipped only when it already has a discovery',
              bad='%s: a property can be skipped without evaluation on a path that is not the '
                  '"already discovered" edge' % cb.strat)
    # the contains_key key is the property's own name
    for c in cb.disc_contains:
        kv = b.val(c.args[1])
        heads = [h for h in cb.prop_next if b.dominates(h.bb, c.bb)]
        head = max(heads, key=lambda h: len([1 for x in heads if b.dominates(x.bb, h.bb)])) if heads else None
        ok = kv.fields() and kv.fields()[-1] == '.name' and head is not None and kv.key == head.bb
        if not ok:
            # the property may arrive through a join (an expanded `filter_map`) or be looked up by bit index in the
            # terminal loop (`properties.get(i)`): its own name all the same
            from taint import vals_of
            alts = set(noref(x) for x in vals_of(b, noref(kv)))
            def own(x):
                cx = b.call_at(x.key) if x.kind == 'call' else None
                if cx is None or x.fields()[-1:] != ('.name',):
                    return False
                if cx in cb.prop_next:
                    return True
                if cx.is_('slice::get', 'Vec::get', 'Index::index'):
                    rv_ = noref(b.trace(b.val(cx.args[0]), ('Deref::deref', 'Vec::as_slice')))
                    return rv_.kind == 'arg' or (rv_.kind == 'call' and b.call_at(rv_.key) is not None and
                                                 b.call_at(rv_.key).is_('Model::properties'))
                return False
            ok = bool(alts) and all(own(x) for x in alts)
        ctx.check(bool(ok), rule, 'skip-key-is-own-name', b,
                  good='skip test looks up the property\'s own name',
                  bad='%s: the "already discovered" test looks up %r' % (cb.strat, kv), span=c.span)
    # iterates model.properties()
    src = iter_source(b, cb.prop_loop)
    src = noref(b.trace(src, ('Iterator::enumerate', 'IntoIterator::into_iter', 'slice::iter', 'Deref::deref',
                              'Vec::iter')))
    c = b.call_at(src.key) if src.kind == 'call' else None
    ok = c is not None and c.is_('Model::properties') and is_arg(b.val(c.args[0]), cb.p_model)
    ctx.check(ok, rule, 'iterates-model-properties', b,
              good='the loop iterates model.properties()',
              bad='%s: the property loop does not iterate model.properties() (source %r)' % (cb.strat, src))


def arm_table(b, sw, edge_map=None):
    """variant -> set of facts ('call:x' / 'agg:V' / 'ret:const') occurring in blocks dominated by
    the arm's edge. edge_map: {variant: edges} when the branch is not a `match` on the value itself (a test of
    a predicate of it whose own table is known)."""
    tab = {}
    names = set()
    if edge_map is not None:
        names = set(edge_map)
    else:
        for (lab, t) in sw.edges:
            if isinstance(lab, frozenset):
                names |= set(lab)
            elif isinstance(lab, str):
                names.add(lab)
    for v in sorted(names):
        edges = edge_map[v] if edge_map is not None else sw.edges_for(v)
        facts = set()
        for blk in b.live_blocks():
            if b.blocks[blk]['cleanup']:
                continue
            if not any(blk == e[1] or b.edges_dominate([e], blk) for e in edges):
                continue
            if not any(blk in b.reach([e[1]]) for e in edges):
                continue
            for st in b.blocks[blk]['stmts']:
                if st['k'] == 'assign':
                    rv = st['rv']
                    if rv['k'] == 'agg' and rv['agg'] == 'adt':
                        facts.add('agg:' + rv['variant'])
                    if st['lhs']['l'] == 0 and rv['k'] == 'use' and rv['op']['k'] == 'const' and 'val' in rv['op']:
                        facts.add('ret:%s' % bool(rv['op']['val']))
            t = b.blocks[blk]['term']
            if t['k'] == 'call' and not t['exp']:
                facts.add('call:' + t.get('callee', '').split('::')[-1])
        tab[v] = facts
    return tab


def r3_tables(ctx, F):
    rule = 'C02-R3'
    want = {'Always': ('ret:True', 'agg:Counterexample', 'call:assert_no_discovery'),
            'Eventually': ('ret:True', 'agg:Counterexample', 'call:assert_no_discovery'),
            'Sometimes': ('ret:False', 'agg:Example', 'call:assert_any_discovery')}
    anti = {'ret:True': 'ret:False', 'ret:False': 'ret:True', 'agg:Counterexample': 'agg:Example',
            'agg:Example': 'agg:Counterexample', 'call:assert_no_discovery': 'call:assert_any_discovery',
            'call:assert_any_discovery': 'call:assert_no_discovery'}
    fns = [('Expectation::discovery_is_failure', 0), ('checker::Checker::discovery_classification', 1),
           ('checker::Checker::assert_properties', 2)]
    pred_tab = None
    for path, idx in fns:
        with ctx.rule(rule, path):
            b = F.body(path)
            ctx.touched(b)
            sws = [sw for sw in b.switches if sw.kind == 'variant' and
                   any(isinstance(l, str) and l in want or isinstance(l, frozenset) and l & set(want)
                       for (l, t) in sw.edges)]
            if not sws and idx > 0 and pred_tab is not None:
                # decided through the predicate whose table was just checked:
                # `if expectation.discovery_is_failure() { .. } else { .. }`
                pcs = b.calls_to(fns[0][0])
                if len(pcs) != 1 or not b.branch(pcs[0], True) or not b.branch(pcs[0], False):
                    raise AnchorMissing('%s: neither a match on Expectation nor one branch on %s' % (path, fns[0][0]))
                emap = {}
                for v in ('Always', 'Eventually', 'Sometimes'):
                    t_ = pred_tab.get(v, set())
                    if ('ret:True' in t_) == ('ret:False' in t_):
                        raise AnchorMissing('%s: %s has no definite value for %s' % (path, fns[0][0], v))
                    emap[v] = b.branch(pcs[0], 'ret:True' in t_)
                tab = arm_table(b, None, emap)
            elif len(sws) != 1:
                raise AnchorMissing('%s: match on Expectation (found %d)' % (path, len(sws)))
            else:
                tab = arm_table(b, sws[0])
            if idx == 0:
                pred_tab = tab
            for v in ('Always', 'Eventually', 'Sometimes'):
                w = want[v][idx]
                facts = tab.get(v, set())
                ok = w in facts and anti[w] not in facts
                ctx.check(ok, rule, '%s->%s' % (v, w.split(':')[1]), b,
                          good='%s maps %s to %s' % (path.split('::')[-1], v, w),
                          bad='%s maps Expectation::%s to %s, expected %s: the three classification '
                              'tables disagree' % (path, v, sorted(facts), w))


def option_field_unwrapped(pb, pv, field):
    """value pv of body pb is the payload of `options<field>.map(NonZeroUsize::get)` - the call itself, or its
    normal form (A12: `match x { Some(n) => Some(n.get()), None => None }`)"""
    from taint import vals_of
    pv = noref(pv)
    pc = pb.call_at(pv.key) if pv.kind == 'call' else None
    if pc is not None and pc.is_('Option::map') and len(pc.args) == 2:
        return str(pc.args[1].get('fn', '')).endswith('NonZero::<T>::get') and \
            noref(pb.val(pc.args[0])).fields()[-1:] == (field,)
    vs = vals_of(pb, pv) if pv.kind == 'local' else {pv}
    if not vs:
        return False
    for x in vs:
        x = noref(x)
        gc = pb.call_at(x.key) if x.kind == 'call' and not x.fields() else None
        if gc is None or not gc.is_('NonZero::get'):
            return False
        src = set(noref(y) for y in vals_of(pb, noref(pb.val(gc.args[0]))))
        if not src or not all(field in y.fields() for y in src):
            return False
    return True


def sanctioned_worker_exits(F, sp):
    """(label, edges) list of the sanctioned exits of a worker closure"""
    w = sp.worker
    out = []
    for c in w.calls_to('VecDeque::is_empty'):
        v = noref(w.val(c.args[0]))
        src = w.call_at(v.key) if v.kind == 'call' else None
        if src is None and v.kind == 'local':
            ds = [d for d in w.defs.get(v.key, []) if d[1] == 'call']
            if len(ds) == 1 and len(w.defs.get(v.key, [])) == 1:
                src = w.call_at(ds[0][0])
            else:
                # a queue variable that is re-filled in place (`pending = broker.pop(); if pending.is_empty()`):
                # the definition that reaches this test without another one in between
                alld = [d for d in w.defs.get(v.key, []) if d[1] == 'call' or not d[2]['lhs']['p']]
                for d in alld:
                    if d[1] == 'call':
                        dc, after = w.call_at(d[0]), [w.call_at(d[0]).target]
                    else:
                        rv = d[2]['rv']
                        dv = w.val(rv['op']) if rv['k'] == 'use' else None
                        dc = w.call_at(dv.key) if dv is not None and dv.kind == 'call' and not dv.projs else None
                        after = [d[0]]
                    if dc is None or after[0] is None or not w.dominates(d[0], c.bb):
                        continue
                    if d[0] == c.bb and d[1] != 'call':
                        src = dc          # assigned in the very block that tests it
                        continue
                    between = w.reach(after, cut_blocks=[c.bb])
                    if not any(x[0] in between for x in alld if x is not d):
                        src = dc
        import roles
        if src is not None and src in roles.calls_role(F, w, 'pop'):
            out.append(('no-more-work', w.branch(c, True)))
    for c in w.calls_to('HasDiscoveries::matches'):
        out.append(('finish_when', w.branch(c, True)))
    from common import edges_where

    def src_is(v, *names):
        v = noref(v)
        c_ = w.call_at(v.key) if v.kind == 'call' else None
        return c_ is not None and c_.is_(*names)
    # target.get() <= state_count.load(), in any spelling
    def unwrapped_target(v):
        # the target may be unwrapped once in spawn(): `options.target_state_count.map(NonZeroUsize::get)`,
        # captured as Option<usize>
        from common import capture_origin
        pb, pv = capture_origin(F, w, noref(v))
        if pb is w:
            return False
        return option_field_unwrapped(pb, pv, '.target_state_count')
    tsc = edges_where(w, lambda v: src_is(v, 'NonZero::get') or unwrapped_target(v), lambda v: src_is(v, 'load'), 'le')
    if tsc:
        out.append(('target_state_count', tsc))
    alld = edges_where(w, lambda v: src_is(v, 'DashMap::len'), lambda v: True, 'eq')
    if alld:
        out.append(('all-discovered', alld))
    for sw in w.switches:
        on = sw.on
        if on.kind == 'call':
            c = w.call_at(on.key)
            if c is not None and c.is_('Atomic::load', 'AtomicBool::load') and sw.kind == 'bool' and \
                    'bool' in (c.targs[0] if c.targs else 'bool') and not on.projs:
                out.append(('shutdown-flag', sw.edges_for(True)))
    for c in w.calls_to('Receiver::recv'):
        out.append(('control-channel-closed', w.branch(c, 'Err')))
    import roles
    for c in roles.calls_role(F, w, 'is_open'):
        out.append(('market-closed', w.branch(c, False)))
    return out


def r4_worker_exits(ctx, F, strat):
    rule = 'C02-R4'
    sp = Spawn(F, strat)
    w = sp.worker
    ctx.touched(w)
    ex = sanctioned_worker_exits(F, sp)
    labels = [l for (l, e) in ex if e]
    cut = [e for (l, es) in ex for e in es]
    r = w.reach([0], cut_edges=cut)
    bad = [x for x in w.returns if x in r]
    need = {'BFS': {'no-more-work', 'finish_when', 'target_state_count'},
            'DFS': {'no-more-work', 'finish_when', 'target_state_count'},
            'OD': {'no-more-work', 'all-discovered', 'target_state_count', 'control-channel-closed'},
            'SIM': {'shutdown-flag', 'finish_when', 'target_state_count'}}[strat]
    missing = need - set(labels)
    ctx.check(not bad and not missing, rule, 'worker-exits', w,
              good='every worker return passes one of %s' % sorted(set(labels)),
              bad='%s worker: %s' % (strat, ('return reachable without a sanctioned exit (%s cut)' %
                                             sorted(set(labels))) if bad else
                                     'sanctioned exit(s) %s not found' % sorted(missing)))


def r5_asserts(ctx, F):
    rule = 'C02-R5'
    with ctx.rule(rule, 'assert_no_discovery'):
        b = F.body('checker::Checker::assert_no_discovery')
        ctx.touched(b)
        d = b.one_call('Checker::discovery', what='discovery lookup')
        some = b.branch(d, 'Some')
        none = b.branch(d, 'None')
        r = b.reach([e[1] for e in some])
        ctx.check(bool(some) and not any(x in r for x in b.returns), rule, 'found=>panic', b,
                  good='a found discovery never returns normally',
                  bad='assert_no_discovery can return normally although a discovery was found')
        done = b.one_call('Checker::is_done', what='is_done')
        fe = b.branch(done, False)
        r2 = b.reach([e[1] for e in fe])
        ctx.check(bool(fe) and not any(x in r2 for x in b.returns) and b.edges_dominate(none, done.bb),
                  rule, 'not-found-and-incomplete=>panic', b,
                  good='"not found" returns only when is_done()',
                  bad='assert_no_discovery can pass while checking is incomplete')
        kv = noref(b.val(d.args[1]))
        ctx.check(kv == V('arg', 2), rule, 'looks-up-own-name', b, good='looks up the given name',
                  bad='assert_no_discovery looks up %r' % kv)
    with ctx.rule(rule, 'assert_any_discovery'):
        b = F.body('checker::Checker::assert_any_discovery')
        ctx.touched(b)
        d = b.one_call('Checker::discovery', what='discovery lookup')
        none = b.branch(d, 'None')
        some = b.branch(d, 'Some')
        r = b.reach([e[1] for e in none])
        ctx.check(bool(none) and not any(x in r for x in b.returns), rule, 'not-found=>panic', b,
                  good='a missing discovery never returns normally',
                  bad='assert_any_discovery can return normally although no discovery exists')
        r2 = b.reach([e[1] for e in some])
        ctx.check(any(x in r2 for x in b.returns), rule, 'found=>returns', b,
                  good='a found discovery is returned', bad='assert_any_discovery never returns')
        kv = noref(b.val(d.args[1]))
        ctx.check(kv == V('arg', 2), rule, 'looks-up-own-name', b, good='looks up the given name',
                  bad='assert_any_discovery looks up %r' % kv)
    with ctx.rule(rule, 'discovery'):
        b = F.body('checker::Checker::discovery')
        rm = b.calls_to('HashMap::remove', 'HashMap::get')
        ok = len(rm) == 1 and noref(b.trace(b.val(rm[0].args[1]), ())).key == 2
        ctx.check(ok, rule, 'discovery-by-name', b, good='discovery(name) looks the name up in discoveries()',
                  bad='Checker::discovery does not look up its argument')
    for strat, ck in (('BFS', 'checker::bfs::BfsChecker'), ('DFS', 'checker::dfs::DfsChecker'),
                      ('OD', 'checker::on_demand::OnDemandChecker')):
        with ctx.rule(rule, strat):
            b = F.body('<%s<M> as checker::Checker<M>>::is_done' % ck)
            ctx.touched(b)
            import roles
            closed = roles.calls_role(F, b, 'is_closed')
            eqs = [sw for sw in b.switches if sw.on.kind == 'bin']
            eq_ok = False
            for (bb, si, st) in b.assigns(lambda st: st['rv']['k'] == 'bin'):
                if st['rv']['op'] == 'Eq':
                    va, vb = noref(b.val(st['rv']['a'])), noref(b.val(st['rv']['b']))
                    ca = b.call_at(va.key) if va.kind == 'call' else None
                    cbb = b.call_at(vb.key) if vb.kind == 'call' else None
                    names = sorted([x.short.split('::')[-1] for x in (ca, cbb) if x is not None])
                    if names == ['len', 'len']:
                        kinds = sorted(['DashMap' if x.is_('DashMap::len') else 'Vec' for x in (ca, cbb)])
                        eq_ok = kinds == ['DashMap', 'Vec']
            ctx.check(len(closed) == 1 and eq_ok, rule, 'is_done', b,
                      good='is_done = job_broker.is_closed() || discoveries.len() == properties().len()',
                      bad='%s::is_done is not "market closed or all properties discovered" (is_closed '
                          'calls=%d, len==len test=%s)' % (ck, len(closed), eq_ok))
            # short-circuit OR: is_closed()=true returns true
            if closed:
                te = b.branch(closed[0], True)
                r = b.reach([e[1] for e in te], cut_blocks=[])
                ctx.check(bool(te), rule, 'is_done-or', b, good='is_closed() is branched on',
                          bad='%s::is_done does not branch on is_closed()' % ck)


def run(ctx):
    F = ctx.facts
    ctx.doc('C02-R1', 'polarity: Always arm inserts only on condition=false, Sometimes only on true, '
                      'Eventually arm never; one condition call per arm on (model, state); key = property.name')
    ctx.doc('C02-R2', 'the property loop iterates model.properties(), has no exit but exhaustion and its '
                      'only skip is contains_key(discoveries, own name)=true')
    ctx.doc('C02-R3', 'discovery_is_failure / discovery_classification / assert_properties map '
                      'Always,Eventually -> failure/Counterexample/assert_no_discovery and Sometimes -> '
                      'not-failure/Example/assert_any_discovery')
    ctx.doc('C02-R4', 'cutting the sanctioned exits makes every Return of a worker closure unreachable')
    ctx.doc('C02-R5', 'assert_no_discovery never returns after Some / returns after None only if is_done; '
                      'assert_any_discovery never returns after None; is_done = closed || len==len')
    for strat in ('BFS', 'DFS', 'OD', 'SIM'):
        with ctx.rule('C02-R1', strat):
            r1_polarity(ctx, CB(F, strat))
            from checkers import no_stray_evaluations
            no_stray_evaluations(ctx, CB(F, strat), 'C02-R1')
        with ctx.rule('C02-R2', strat):
            r2_all_properties(ctx, CB(F, strat))
        with ctx.rule('C02-R4', strat):
            r4_worker_exits(ctx, F, strat)
    r3_tables(ctx, F)
    r5_asserts(ctx, F)
    # the iff presupposes that every reachable in-boundary state is evaluated: C01's coverage rules
    import c01
    c01.coverage_rules(ctx, F)
    # "once a check completes": the market may close only when no worker holds or can still receive work - the
    # accounting of active workers in JobBroker::pop (a worker that was handed a batch counts as running again)
    import c05
    ctx.doc('C05-R3', 'after Condvar::wait every path to return re-tests job_batches.pop()')
    ctx.doc('C05-R4', 'open_count decremented before the wait and incremented after it on every path')
    ctx.doc('C05-R5', 'on open_count == 0 the worker notifies all and closes the market before returning')
    with ctx.rule('C05-R3', 'pop'):
        c05.r3_r4_r5_pop(ctx, F)
    # "a discovery is reported for an always property only if a reachable state violates it": the terminal-state
    # rule reports whatever bit is still set, so only eventually properties may ever get a bit
    import c11
    ctx.doc('C11-R1', 'eventually bits are set by the position in Model::properties(), only for Expectation::Eventually, '
                      'cleared only when the condition held')
    c11.r1_bits(ctx, F)
    # "DFS with symmetry" is one of the quantified strategies: its verdicts are exact only if the
    # representative is one consistent permutation of the state and keys the visited set (C10)
    import c10
    ctx.doc('C10-R1', 'representative(): every field transformed under one plan, per-actor vectors reindexed, '
                      'nothing modified afterwards')
    ctx.doc('C10-R3', 'the representative is only fingerprinted; that fingerprint keys the visited set; the path '
                      'continues with the original state')
    with ctx.rule('C10-R1', 'representative'):
        c10.r1_representative(ctx, F)
    c10.r3_visited_on_representative(ctx, F)
