//! Type-level witnesses for the static checks of /verif (DESIGN.md section 2.3).
//!
//! Every `compile_fail,E0xxx` doc test states that a violating program is rejected by the type
//! checker / privacy checker with exactly that error; it is paired with a compiling twin that
//! differs only in the offending line, so that a witness cannot pass merely because its paths are
//! wrong.  Run with `cargo +nightly test --doc` (the error code is only honoured on nightly).

/// C03/C19: a `Path` cannot be fabricated - its only field is private, so paths come from
/// re-executing the model (`from_actions` / the checker).
///
/// ```compile_fail,E0423
/// use stateright::Path;
/// let _p: Path<u8, u8> = Path(vec![(1u8, None)]);
/// ```
///
/// twin:
/// ```
/// use stateright::{Model, Path};
/// struct M;
/// impl Model for M {
///     type State = u8; type Action = u8;
///     fn init_states(&self) -> Vec<u8> { vec![1] }
///     fn actions(&self, _: &u8, _: &mut Vec<u8>) {}
///     fn next_state(&self, _: &u8, _: u8) -> Option<u8> { None }
/// }
/// let _p: Option<Path<u8, u8>> = Path::from_actions(&M, 1u8, Vec::<&u8>::new());
/// ```
pub struct W1PathCtorPrivate;

/// C07: only the crate itself can put messages on / take messages off a `Network`.
///
/// ```compile_fail,E0624
/// use stateright::actor::{Envelope, Id, Network};
/// let mut n: Network<u8> = Network::new_ordered([]);
/// n.send(Envelope { src: Id::from(0), dst: Id::from(1), msg: 1u8 });
/// ```
///
/// ```compile_fail,E0624
/// use stateright::actor::{Envelope, Id, Network};
/// let mut n: Network<u8> = Network::new_ordered([Envelope { src: Id::from(0), dst: Id::from(1), msg: 1u8 }]);
/// n.on_deliver(Envelope { src: Id::from(0), dst: Id::from(1), msg: 1u8 });
/// ```
///
/// ```compile_fail,E0624
/// use stateright::actor::{Envelope, Id, Network};
/// let mut n: Network<u8> = Network::new_ordered([Envelope { src: Id::from(0), dst: Id::from(1), msg: 1u8 }]);
/// n.on_drop(Envelope { src: Id::from(0), dst: Id::from(1), msg: 1u8 });
/// ```
///
/// twin:
/// ```
/// use stateright::actor::{Envelope, Id, Network};
/// let n: Network<u8> = Network::new_ordered([Envelope { src: Id::from(0), dst: Id::from(1), msg: 1u8 }]);
/// assert_eq!(n.len(), 1);
/// ```
pub struct W2NetworkMutatorsPrivate;

/// C05: the job market (lock/condvar protocol) is not reachable from outside the crate.
///
/// ```compile_fail,E0603
/// use stateright::job_market::JobBroker;
/// ```
///
/// twin:
/// ```
/// use stateright::Model;
/// ```
pub struct W3JobMarketPrivate;

/// C10: symmetry reduction can only be requested for states that define a representative.
///
/// ```compile_fail,E0277
/// use stateright::Model;
/// #[derive(Clone)]
/// struct M;
/// impl Model for M {
///     type State = u8; type Action = u8;
///     fn init_states(&self) -> Vec<u8> { vec![1] }
///     fn actions(&self, _: &u8, _: &mut Vec<u8>) {}
///     fn next_state(&self, _: &u8, _: u8) -> Option<u8> { None }
/// }
/// let _ = M.checker().symmetry();
/// ```
///
/// twin:
/// ```
/// use stateright::Model;
/// #[derive(Clone)]
/// struct M;
/// impl Model for M {
///     type State = u8; type Action = u8;
///     fn init_states(&self) -> Vec<u8> { vec![1] }
///     fn actions(&self, _: &u8, _: &mut Vec<u8>) {}
///     fn next_state(&self, _: &u8, _: u8) -> Option<u8> { None }
/// }
/// let _ = M.checker().symmetry_fn(|s| *s);
/// ```
pub struct W4SymmetryNeedsRepresentative;

/// C04: a model whose state has no (deterministic) `Hash` cannot be checked; the provided
/// `HashableHashSet` is the sanctioned replacement for `HashSet`.
///
/// ```compile_fail,E0277
/// use stateright::Model;
/// use std::collections::HashSet;
/// struct M;
/// impl Model for M {
///     type State = HashSet<u8>; type Action = u8;
///     fn init_states(&self) -> Vec<HashSet<u8>> { vec![HashSet::new()] }
///     fn actions(&self, _: &HashSet<u8>, _: &mut Vec<u8>) {}
///     fn next_state(&self, _: &HashSet<u8>, _: u8) -> Option<HashSet<u8>> { None }
/// }
/// let _ = M.checker();
/// ```
///
/// twin:
/// ```
/// use stateright::Model;
/// use stateright::util::HashableHashSet;
/// struct M;
/// impl Model for M {
///     type State = HashableHashSet<u8>; type Action = u8;
///     fn init_states(&self) -> Vec<HashableHashSet<u8>> { vec![HashableHashSet::new()] }
///     fn actions(&self, _: &HashableHashSet<u8>, _: &mut Vec<u8>) {}
///     fn next_state(&self, _: &HashableHashSet<u8>, _: u8) -> Option<HashableHashSet<u8>> { None }
/// }
/// let _ = M.checker();
/// ```
pub struct W5CheckerNeedsHash;

/// C03/C04: the fingerprint function is not part of the public API: identities are only produced
/// by the crate.
///
/// ```compile_fail,E0603
/// let _ = stateright::fingerprint(&1u8);
/// ```
///
/// twin:
/// ```
/// let _ = stateright::Expectation::Always;
/// ```
pub struct W6FingerprintPrivate;
